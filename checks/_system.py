# System.tla / TraceSystem.tla <-> whole agents on the controlled mesh (growth check G03)
import json, os
import vf
from _ctlreg import par

INVS = "TypeOK LiveRegistered S2routes S2relay S3converged S4prefix S5sleeping"
PROPS = "S1create S1establish S5noOpen"
HFILES = ["common/common_test.go.tmpl", "agent/cmesh_test.go", "agent/system_test.go"]

LINE = '{{"a","b"},{"b","c"}}'
TRI = '{{"a","b"},{"b","c"},{"a","c"}}'
LINE4 = '{{"a","b"},{"b","c"},{"c","d"}}'
RING4 = '{{"a","b"},{"b","c"},{"c","d"},{"a","d"}}'
# environment actions that wait for quiescence on the bounded instances (failures and sleep strike at any moment)
Q_OPS = '{"Connect","Announce","Wake","OpenTunnel","TunnelData","CloseTunnel","ExpireRoutes"}'
Q_RACE = '{"Announce","OpenTunnel","TunnelData","CloseTunnel","ExpireRoutes"}'

# deviation -> (constants of the instance in which it must be caught, invariants that may catch it)
DEVS = {
    "DevRouteKeptAfterDisconnect": (dict(ann=0, fail=1, sleep=0, sleepers="{}", quiet=Q_OPS), {"S2routes"}),
    "DevRelayKeptAfterDisconnect": (dict(ann=0, fail=1, sleep=0, sleepers="{}", quiet=Q_OPS), {"S2relay", "S1establish"}),
    # (the stale relay entry also violates S2relay in the same state; here only the action properties are checked so
    # that S1 itself is shown to be sensitive)
    "DevTunnelOverUnregistered": (dict(ann=0, fail=1, sleep=0, sleepers="{}", quiet=Q_RACE, invs="TypeOK"), {"S1create"}),
    "DevSkipCleanupWhenSuperseded": (dict(ann=0, fail=0, sleep=1, sleepers='{"b"}', quiet=Q_RACE), {"S2relay"}),
    "DevSleepKeepsConnections": (dict(ann=0, fail=0, sleep=1, sleepers='{"b"}', quiet=Q_OPS), {"S5sleeping"}),
    "DevRelayDuplicatesData": (dict(ann=0, fail=0, sleep=0, sleepers="{}", quiet=Q_OPS), {"S4prefix"}),
    "DevNoForwardToReconnected": (dict(ann=1, fail=1, sleep=0, sleepers="{}", quiet=Q_OPS), {"S3converged"}),
    # one-hop tunnel a -> b: a unit in flight is lost with the connection, the next one arrives over the new connection
    "DevEndpointSurvivesReconnect": (dict(ann=0, fail=1, sleep=0, sleepers="{}", quiet=Q_OPS, exits='{"b"}', data=2), {"S4prefix"}),
}
# what a deviation that explains a rejected execution means for the code
DEV_INV = {"DevRouteKeptAfterDisconnect": "S2routes", "DevRelayKeptAfterDisconnect": "S2relay",
           "DevSkipCleanupWhenSuperseded": "S2relay", "DevSleepKeepsConnections": "S5sleeping",
           "DevRelayDuplicatesData": "S4prefix", "DevTunnelOverUnregistered": "S1create",
           "DevNoForwardToReconnected": "S3converged", "DevEndpointSurvivesReconnect": "S4prefix"}
DEV_SITE = {"DevRouteKeptAfterDisconnect": "agent.handlePeerDisconnect", "DevRelayKeptAfterDisconnect": "agent.cleanupRelaysForPeer",
            "DevSkipCleanupWhenSuperseded": "peer.Manager.handleDisconnect", "DevSleepKeepsConnections": "agent.enterSleep",
            "DevRelayDuplicatesData": "agent.handleStreamData", "DevTunnelOverUnregistered": "agent.handleStreamOpen",
            "DevNoForwardToReconnected": "flood.Flooder.HandleRouteAdvertise",
            "DevEndpointSurvivesReconnect": "agent.handleStreamData"}


def mc_cfg(agents='{"a","b","c"}', links=LINE, exits='{"c"}', sleepers="{}", ingress='{"a"}', gen=2, ann=1, fail=1, sleep=0,
           tun=1, data=1, exp=0, quiet=Q_OPS, dev=(), invs=INVS + " QueueBound", props=PROPS):
    return ("CONSTANTS\n Agent = %s\n LinkSets = {%s}\n ExitSets = {%s}\n SleeperSets = {%s}\n IngressSets = {%s}\n"
            " MaxGen = %d MaxAnn = %d MaxFail = %d MaxSleep = %d MaxTun = %d MaxData = %d MaxExpire = %d\n"
            " QuietOnly = %s\n Dev = {%s}\nINIT Init\nNEXT Next\nVIEW view\nINVARIANTS %s\nPROPERTIES %s\n" % (
                agents, links, exits, sleepers, ingress, gen, ann, fail, sleep, tun, data, exp, quiet,
                ",".join('"%s"' % d for d in dev), invs, props))


def trace_cfg(dev=(), check=True, lag=0):
    return ("CONSTANTS\n Agent = {\"a\",\"b\",\"c\",\"d\"}\n LinkSets = {}\n ExitSets = {}\n SleeperSets = {}\n IngressSets = {}\n"
            " MaxGen = 1000 MaxAnn = 1000000 MaxFail = 1000000 MaxSleep = 1000000 MaxTun = 4 MaxData = 1000000 MaxExpire = 0\n"
            " QuietOnly = {}\n Dev = {%s}\n Lag = %d\nINIT TraceInit\nNEXT TraceNext\nCONSTRAINT HighWater\n%sPOSTCONDITION TraceAccepted\n" % (
                ",".join('"%s"' % d for d in dev), lag,
                ("INVARIANTS TypeOK LiveRegistered S2routes S2relay S3converged S4prefix S5sleeping\n"
                 "PROPERTIES S1create S1establish S5noOpen\n") if check else ""))


def ideal_instances(ctx):
    """name -> cfg text of the exhaustively checked instances of the ideal design"""
    inst = {
        # 3 agents in a line, exit route at c, one tunnel a -> c, one link failure + reconnect, one announcement
        "line3-fail": mc_cfg(links=LINE, ann=1, fail=1),
        # the transit b sleeps and wakes (connections re-established), failure-free
        "line3-sleep": mc_cfg(links=LINE, sleepers='{"b"}', ann=1, fail=0, sleep=1),
    }
    if not ctx.quick():
        inst.update({
            "tri3-fail": mc_cfg(links=TRI, ann=1, fail=1),
            "tri3-sleep": mc_cfg(links=TRI, sleepers='{"b"}', ann=1, fail=0, sleep=1),
            # every interleaving: environment actions at any moment
            "line3-race": mc_cfg(links=LINE, ann=1, fail=1, quiet="{}"),
            "line3-sleep-race": mc_cfg(links=LINE, sleepers='{"b"}', ann=1, fail=0, sleep=1, quiet=Q_RACE),
            # two data units, route TTL expiry, exit at the middle agent as well
            "line3-expire": mc_cfg(links=LINE, exits='{"c"},{"b","c"}', ann=1, fail=1, exp=1, data=2),
        })
    return inst


def model(ctx):
    inst = ideal_instances(ctx)
    w_ideal = 2 if ctx.quick() else 4

    def ideal_job(name):
        def job(c):
            fn = "MC-%s.cfg" % name
            return c.tlc("System", fn, files={fn: inst[name]}, workers=w_ideal, heap="4g", name="System-" + name, timeout=3000)
        return job

    def dev_job(d):
        def job(c):
            k, _ = DEVS[d]
            fn = "MCdev-%s.cfg" % d
            return c.tlc("System", fn, files={fn: mc_cfg(ann=k["ann"], fail=k["fail"], sleep=k["sleep"], sleepers=k["sleepers"],
                                                         quiet=k["quiet"], dev=[d], invs=k.get("invs", INVS + " QueueBound"),
                                                         exits=k.get("exits", '{"c"}'), data=k.get("data", 1))},
                         workers=1, heap="2g", expect_violation=True, name="System-" + d, timeout=1800)
        return job

    def sim_job(c):
        # 4 agents: random walks (every interleaving allowed), seed = VERIF_SEED
        fn = "MCsim.cfg"
        text = mc_cfg(agents='{"a","b","c","d"}', links=LINE4 + "," + RING4, exits='{"d"},{"c","d"}', sleepers='{"b"},{"c"}',
                      ingress='{"a","b"}', gen=3, ann=3, fail=2, sleep=1, tun=2, data=2, exp=1, quiet="{}", invs=INVS)
        return c.tlc("System", fn, files={fn: text}, workers=4, heap="4g", simulate="num=%d" % 1500, depth=120,
                     name="System-sim4", timeout=3000)
    return inst, ideal_job, dev_job, sim_job


def check_model_results(ctx, names, ideal_res, dev_res, sim_res):
    out = {"instances": {}, "caught": {}}
    for n, r in zip(names, ideal_res):
        if r.violated:
            raise vf.Infra("ideal System spec violates %s on instance %s (specification error)" % (r.violated, n))
        out["instances"][n] = {"states": r.distinct, "transitions": r.generated, "depth": r.depth}
    for d, r in zip(DEVS, dev_res):
        if not r.violated:
            raise vf.Infra("deviation %s not detected by S1-S5 (vacuous model)" % d)
        if r.violated not in DEVS[d][1]:
            ctx.log("note: %s caught by %s (expected one of %s)" % (d, r.violated, sorted(DEVS[d][1])))
        out["caught"][d] = r.violated
    if sim_res is not None:
        if sim_res.violated:
            raise vf.Infra("ideal System spec violates %s in simulation on 4 agents (specification error)" % sim_res.violated)
        import re
        m = re.search(r"The number of states generated: (\d+)", sim_res.out)
        out["simulation"] = {"states": int(m.group(1)) if m else sim_res.generated, "walks": 1500, "depth": 120, "agents": 4}
    return out


def record_job(test, outname, env, timeout=2400):
    def job(c):
        out = os.path.join(c.work, outname)
        e = dict(env)
        e["ZZV_OUT"] = out
        r = c.gotest("agent", HFILES, "^%s$" % test, env=e, timeout=timeout)
        s = r.of("summary")
        if not s:
            raise vf.Infra("system trace harness produced no summary:\n" + r.out[-3000:])
        return out, s[0]
    return job


def validate_job(tracefile, name, dev=(), check=True, lag=0, timeout=3000, fallback_lag=None):
    def job(c):
        fn = "Trace-%s.cfg" % name
        # TLC reads the trace through IOEnv; the generated cfg goes into the scratch copy of spec/
        e = {"TRACE_FILE": tracefile}
        used = lag
        try:
            res = c.tlc("TraceSystem", fn, files={fn: trace_cfg(dev, check, lag)}, workers=1, env=e, expect_violation=True,
                        name="TraceSystem-" + name, timeout=timeout, queue_dfs=True, dump_trace=False, tags=("HW", "LEN"),
                        heap="4g")
        except vf.Infra as ex:
            if fallback_lag is None or "timeout" not in str(ex):
                raise
            # the search over every order of the silent steps did not finish in time: pruned search instead
            c.log("full search of %s timed out after %ds, pruned search (lag %d) instead" % (name, timeout, fallback_lag))
            used = fallback_lag
            res = c.tlc("TraceSystem", fn, files={fn: trace_cfg(dev, check, fallback_lag)}, workers=1, env=e,
                        expect_violation=True, name="TraceSystem-" + name, timeout=3000, queue_dfs=True, dump_trace=False,
                        tags=("HW", "LEN"), heap="4g")
        hw = [o for t, o in res.prints if t == "HW"]
        ln = [o for t, o in res.prints if t == "LEN"]
        events = [json.loads(x) for x in open(tracefile) if x.strip()]
        if res.violated and res.violated != "postcondition":
            return {"accepted": False, "violated": res.violated, "hw": None, "events": events, "res": res, "lag": used}
        if not hw or not ln:
            raise vf.Infra("trace validation did not reach its postcondition:\n" + res.out[-3000:])
        ok = hw[-1] == ln[-1] + 1
        return {"accepted": ok, "violated": None if ok else "rejected", "hw": hw[-1], "events": events, "res": res, "lag": used,
                "states": res.distinct}
    return job


def split_scenarios(events):
    out = []
    for e in events:
        if e.get("ev") == "Reset":
            out.append([])
        out[-1].append(e)
    return out


def locate(scens, idx):
    """(scenario number, position in it) of event number idx (1-based) of the concatenation of scens"""
    n = 0
    for j, sc in enumerate(scens):
        if idx <= n + len(sc):
            return j, idx - n - 1
        n += len(sc)
    return len(scens) - 1, len(scens[-1]) - 1


def stuck_index(v):
    """event number a validation got stuck at (high-water mark, or the value of l in the last state TLC printed)"""
    if v["hw"] is not None:
        return v["hw"]
    import re
    ls = re.findall(r"/\\ l = (\d+)", v["res"].out)
    return int(ls[-1]) if ls else 1


def brief(e):
    return {k: v for k, v in e.items() if k not in ("st", "parked", "links", "held") or (k in ("parked", "links", "held") and v)}
