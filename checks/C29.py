# C29 - A validly signed command takes effect at most once per agent
#
# Statement: an agent acts on a given signed sleep or wake command at most once; replaying it later, even within its
# validity window and after arbitrary other traffic or cache maintenance, changes nothing.  Quantifier: any
# interleaving of genuine, replayed and forged commands with cache cleanups, any timestamp within the window.
#
# Interpretation (permissive side):
#  * "the same command" = the signed triple (origin, id, timestamp) with its signature; the kind is not signed, so
#    delivering the triple once as SLEEP and once as WAKE (or inside QUEUED_STATE) is a replay of the same command.
#  * "acts on" = the Flooder's handler returns true (the agent then calls the sleep manager) / the agent's sleep state
#    changes / the command is forwarded.  On a whole agent only observable effects count.
#  * only signed mode is claimed (without a key there is no timestamp window, hence no bounded replay protection).
#  * forged frames are "other traffic": they must not change what happens to a genuine command.  A forged frame that
#    takes the (origin, id) slot of a genuine command so that the genuine command is then refused as a duplicate
#    (seen cache marked before verification - the mechanism named in the property's anchors) is reported here: the
#    at-most-once bookkeeping was spent on a frame that is not the command.
#  * eviction victims are chosen by map iteration order: where the model allows several outcomes every one of them
#    is accepted.
#  * real time: one clock unit of the model is a few seconds of real time; every replayed step is checked to have run
#    inside the safe zone of its clock value, otherwise the path is re-run (never a verdict from wall-clock order).
#  * concurrency: cleanup() runs on its own goroutine in the agent.  The model has an instance in which cleanup is two
#    steps with commands handled in between; on the real Flooder a concurrent driver (commands delivered and replayed
#    at once while cleanup() loops) is judged by the statement itself: no command is accepted twice.  A double
#    acceptance is a violation; the absence of one in the sampled schedules is not a proof.
import _sleepcmd as S


def run(ctx):
    S.check(ctx, "C29")
