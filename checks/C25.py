# C25 - Remote shell runs only authorised commands
#
# Interpretation (permissive side):
#  * "the whitelist is the wildcard" = the whitelist contains the entry "*" (the code's and the documentation's
#    meaning; a list such as ["ls", "*"] counts as wildcard).
#  * "shell metacharacters" = ; & | $ ` ( ) { } [ ] < > \ ! * ? ~  (operators, expansions, globbing, escaping).
#    Quotes, '#', '=', '%', '^', blanks and line breaks are left to the implementation: commands are exec'ed without a
#    shell, and the statement does not list them.  "absolute path" = begins with "/" (unix).
#  * The statement is an "only if": a process that starts must be authorised.  A refusal of an authorised request is
#    not a violation; if the code refuses where the transcription says it starts (or the reverse without violating
#    the statement) the spec no longer describes the code -> exit 2.
#  * "A process started" is observed twice: Session.Start / NewPTYSession returned success, and the stub executable
#    itself appended a line to a marker file.
#  * The authorisation decision is also run as request SEQUENCES on one live executor (a matching password first, then
#    prefixes / suffixes / other wrong passwords, and every other order): it must not depend on earlier requests.
#  * Sessions: the executor's counter never exceeds max_sessions (max_sessions = 0 means unlimited, as documented), it
#    counts exactly the streams holding a slot, and the number of stub processes really alive when a session is
#    acknowledged never exceeds the maximum (measured with slack for processes that are being killed).
import vf, _shell as S

D_DEVS = ["DevPrefixMatch", "DevBaseOfPath", "DevNoArgCheck", "DevEmptyPasswordOK", "DevCaseFold", "DevArgValueOnly"]
S_DEVS = ["DevCheckThenAct", "DevDoubleRelease", "DevOffByOne"]


def decision(ctx):
    quick = ctx.quick()
    cmds, args = (S.CMDS_Q, S.ARGS_Q) if quick else (S.CMDS_T, S.ARGS_T)
    ideal = S.d_run(ctx, cmds, args, full=not quick)
    if ideal.violated:
        raise vf.Infra("transcribed decision violates the oracle (%s): spec error or a defect to transcribe as Dev" %
                       ideal.violated)
    # sensitivity (same TLC run, POSTCONDITION DevReport): every decision deviation has a witness in the domain
    rep = [o for t, o in ideal.prints if t == "DEVCHK"]
    if not rep:
        raise vf.Infra("TLC did not print the deviation report")
    caught = {}
    for d in D_DEVS:
        w = rep[-1].get(d, {})
        if not w.get("found"):
            raise vf.Infra("deviation %s has no witness in the decision domain (vacuous domain)" % d)
        caught[d] = "%d cases, e.g. cmd=%r args=%r wl=%s pw=%s/%s" % (
            w["n"], "".join(w["c"]["cmd"]), ["".join(a) for a in w["c"]["args"]], ["".join(x) for x in w["c"]["wl"]],
            w["c"]["pwcfg"], w["c"]["pw"])
    vecs = [o for t, o in ideal.prints if t == "VEC"]
    if len(vecs) != ideal.distinct:
        raise vf.Infra("VEC records (%d) do not match TLC's initial states (%d)" % (len(vecs), ideal.distinct))
    vecs.sort(key=vf.canon)
    for i, v in enumerate(vecs):
        v["id"] = i
        v["pty"] = (i % (5 if quick else 3)) == ctx.seed % (5 if quick else 3)
    import os
    inp = os.path.join(ctx.work, "shell_cases.json")
    vf.write_json(inp, {"cases": vecs})
    r = ctx.gotest("shell", S.HFILES, "^TestZZVShellDecision$", env={"ZZV_IN": inp}, timeout=1500)
    summ = r.of("summary")
    recs = {x["id"]: x for x in r.of("case")}
    if not summ or len(recs) != len(vecs):
        raise vf.Infra("decision harness incomplete: %d of %d cases\n%s" % (len(recs), len(vecs), r.out[-2000:]))
    ran = summ[0]["ran"]
    nviol, stricter, looser, classes, started, pty_started = 0, [], [], set(), 0, 0
    for v in vecs:
        x = recs[v["id"]]
        for ctor, key, tag in (("NewSession", "session", "s"), ("NewPTYSession", "pty", "p")):
            if key not in x:
                continue
            st = bool(x[key]) or ran.get("c%d-%s" % (v["id"], tag), 0) > 0
            if bool(x[key]) != (ran.get("c%d-%s" % (v["id"], tag), 0) > 0):
                raise vf.Infra("case %d: constructor result (%s) and stub marker disagree" % (v["id"], x[key]))
            if st:
                started += key == "session"
                pty_started += key == "pty"
            if st and not v["oracle"]:
                nviol += 1
                c = v["c"]
                ctx.finding("Shell:unauthorised-start:%s:%s" % (v["why"], ctor),
                            "%s started a process although the statement forbids it (%s): enabled=%s password=%s/%s "
                            "whitelist=%s command=%r args=%r" % (ctor, v["why"], c["enabled"], c["pwcfg"], c["pw"],
                                                                 ["".join(w) for w in c["wl"]], "".join(c["cmd"]),
                                                                 ["".join(a) for a in c["args"]]), {"vec": v, "real": x})
            want = v["impl"] and x["stub"]
            if st != want:
                (looser if st else stricter).append((v, x, ctor))
            if x.get("active_after", 0) != 0 or x.get("pty_active_after", 0) != 0:
                raise vf.Infra("case %d: harness left a session slot taken" % v["id"])
        classes.add((v["c"]["enabled"], v["c"]["pwcfg"], v["c"]["pw"], v["why"], v["oracle"], v["impl"]))
    if (stricter or looser) and not ctx.violations:
        v, x, ctor = (looser or stricter)[0]
        raise vf.Infra("binding mismatch without a property violation: %s on %s: real started=%s, transcription says %s "
                       "(stub present: %s; %d cases) - Shell.tla no longer describes executor.go" % (
                           ctor, vf.canon(v["c"]), bool(x.get("session")), v["impl"], x["stub"],
                           len(stricter) + len(looser)))
    return dict(ideal=ideal, caught=caught, vecs=vecs, started=started, pty_started=pty_started, classes=classes,
                pty_cases=sum(1 for v in vecs if v["pty"]), nviol=nviol)


def history(ctx):
    """Request sequences on one live executor (Shell.tla part H): every sequence of <= 3 passwords of the classes
    match / prefix / suffix / longer / wrong / absent; a process may start only for the matching password, whatever
    was presented before."""
    import os
    ideal = S.h_run(ctx, maxreq=3)
    if ideal.violated:
        raise vf.Infra("ideal Shell spec (history) violates %s" % ideal.violated)
    dv = S.h_run(ctx, dev=("DevAuthDependsOnHistory",), maxreq=3, emit=False, expect_violation=True)
    if dv.violated != "HOnlyMatching":
        raise vf.Infra("DevAuthDependsOnHistory not detected by HOnlyMatching")
    paths, nnodes, nedges = vf.path_cover(ideal.edges, init_pred=lambda st: st == [])
    inp = os.path.join(ctx.work, "shell_hist.json")
    vf.write_json(inp, {"paths": paths})
    r = ctx.gotest("shell", S.HFILES, "^TestZZVShellHistory$", env={"ZZV_IN": inp}, timeout=900)
    summ = r.of("summary")
    steps = r.of("step")
    if not summ or len(steps) != sum(len(p["steps"]) for p in paths):
        raise vf.Infra("history harness incomplete:\n" + r.out[-2000:])
    ran = summ[0]["ran"]
    bad = []
    for x in steps:
        really = bool(x["started"]) or ran.get(x["tag"], 0) > 0
        if bool(x["started"]) != (ran.get(x["tag"], 0) > 0):
            raise vf.Infra("history step %s: constructor result and stub marker disagree" % x["tag"])
        if really and x["pw"] != "match":
            ctx.finding("Shell:unauthorised-start:auth-history:%s" % x["pw"],
                        "NewSession started a process for a request whose password (%s of the real one) does not match, "
                        "after the request sequence %s on the same executor" % (x["pw"], x["seq"]), x)
        elif really != x["want"]:
            bad.append(x)
    if bad and not ctx.violations:
        raise vf.Infra("binding mismatch without a property violation (history): %s" % bad[0])
    return dict(ideal=ideal, paths=len(paths), steps=len(steps), edges=nedges, caught=dv.violated,
                sample=[s["a"] for s in paths[len(paths) // 2]["steps"]])


def sessions(ctx):
    quick = ctx.quick()
    ideal = S.s_run(ctx, observers=() if quick else ("w1",), maxopens=3)
    if ideal.violated:
        raise vf.Infra("ideal Shell spec (sessions) violates %s (specification error)" % ideal.violated)
    caught = {}
    for d in S_DEVS:
        r = S.s_run(ctx, dev=(d,), expect_violation=True, maxopens=4 if d == "DevDoubleRelease" else 3)
        caught[d] = r.violated
        if not r.violated:
            raise vf.Infra("deviation %s not detected by the counter invariants" % d)
    runs = [(1, 4, 3, 4), (2, 4, 3, 4)] if quick else [(1, 5, 4, 8), (2, 5, 4, 8), (3, 5, 4, 8), (0, 4, 2, 5)]
    tot = {"events": 0, "traces": 0, "streams": {}, "over": 0}
    sample = None
    for maxs, threads, rounds, streams in runs:
        summ, v = S.trace(ctx, maxs, threads, rounds, streams, "shelltrace%d" % maxs)
        tot["events"] += summ["events"]
        tot["traces"] += summ["traces"]
        tot["over"] += summ["over_limit_observations"]
        for k, n in summ["stats"].items():
            tot["streams"][k] = tot["streams"].get(k, 0) + n
        if maxs > 0 and (summ["stats"].get("max", 0) == 0 and not quick):
            ctx.notes.append("max=%d: the limit was never reached in this run" % maxs)
        if not v["accepted"]:
            if v["violated"] and v["violated"] != "rejected":
                ctx.finding("Shell:sessions:invariant:%s" % v["violated"],
                            "a recorded execution of the real shell handler (max_sessions=%d) violates invariant %s of "
                            "Shell.tla" % (maxs, v["violated"]), {"tlc_tail": v["res"].out[-3000:]})
            else:
                ev = v["event"] or {}
                ctx.finding("Shell:sessions:trace-rejected:%s" % ev.get("ev"),
                            "recorded execution of the real shell handler (max_sessions=%d) is not a behaviour of "
                            "Shell.tla: event #%s %s cannot be matched (e.g. a session acknowledged beyond the maximum, "
                            "or the counter observed at a value the spec cannot have)" % (maxs, v["hw"], ev),
                            {"event_index": v["hw"], "event": ev, "context": v["context"]})
        sample = sample or v["events"][1:9]
    # binding self-test: a corrupted observation must be rejected
    def corrupt(path):
        import json
        lines = open(path).read().splitlines()
        for i, l in enumerate(lines):
            e = json.loads(l)
            if e.get("ev") == "ObsRet":
                e["n"] = e["n"] + 5
                lines[i] = json.dumps(e)
                break
        open(path, "w").write("\n".join(lines) + "\n")
    summ, v = S.trace(ctx, 2, 3, 1, 3, "shelltrace_corrupt", corrupt=corrupt)
    if v["accepted"]:
        raise vf.Infra("binding self-test failed: corrupted counter observation was accepted by TraceShell")
    if quick and tot["streams"].get("max", 0) == 0:
        raise vf.Infra("the session limit was never reached by the concurrent driver (nothing exercised)")
    return dict(ideal=ideal, caught=caught, tot=tot, sample=sample)


def run(ctx):
    d = decision(ctx)
    h = history(ctx)
    s = sessions(ctx)
    mid = len(d["vecs"]) // 2
    ctx.evidence("model_checking",
                 assumptions=["bcrypt itself is sound (password cases: not configured, absent, matching, wrong)",
                              "bounded decision domain: whitelists %s, %d command forms, %d argument vectors (every "
                              "metacharacter of the statement alone and embedded, absolute paths in any position); "
                              "exec'ed stubs on a private PATH stand for real programs" % (
                                  S.WHITELISTS, len(d["vecs"]) and len(set(vf.canon(v["c"]["cmd"]) for v in d["vecs"])),
                                  len(set(vf.canon(v["c"]["args"]) for v in d["vecs"]))),
                              "session part: Go scheduler interleavings of concurrent streams are sampled (seeded), every "
                              "recorded execution is decided by TLC; process liveness measured through /proc with slack"],
                 states=d["ideal"].distinct + h["ideal"].distinct + s["ideal"].distinct,
                 transitions=max(1, s["ideal"].generated - 1) + h["edges"],
                 traces_validated_against_impl=s["tot"]["traces"] + h["paths"],
                 history_paths=h["paths"], history_requests=h["steps"],
                 exhaustive=True,
                 evaluations=len(d["vecs"]) + d["pty_cases"],
                 distinct_nontrivial=len(d["classes"]),
                 rule="decision cases enumerated by TLC (Shell.tla part D, one VEC per initial state); a class = distinct "
                      "(enabled, password configuration, password given, oracle reason, oracle verdict, transcribed "
                      "verdict); every case run against NewSession+Start, a seeded fifth (thorough: third) also against "
                      "NewPTYSession",
                 decision_cases=len(d["vecs"]), processes_started=d["started"], pty_cases=d["pty_cases"],
                 pty_processes_started=d["pty_started"], unauthorised_starts=d["nviol"],
                 counter_states=s["ideal"].distinct, trace_events=s["tot"]["events"], stream_outcomes=s["tot"]["streams"],
                 live_over_limit_observations=s["tot"]["over"],
                 deviations_caught=dict(d["caught"], DevAuthDependsOnHistory=h["caught"], **s["caught"]),
                 samples=[{"case": v["c"], "oracle": v["oracle"], "why": v["why"]} for v in d["vecs"][mid:mid + 3]]
                 + [{"history_sequence": h["sample"]}, {"trace_events": s["sample"]}])
