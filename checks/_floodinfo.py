# FloodInfo.tla <-> internal/flood Flooder (NODE_INFO_ADVERTISE, ROUTE_WITHDRAW) + internal/routing Manager   (growth G01)
#
#   scenarios          set-ups and budgets of the bounded model (one TLC run covers a list of scenarios: the scenario is
#                      chosen in Init and stored in the spec variable cfg)
#   model(...)         TLC on a list of scenarios with a deviation set, edges emitted
#   sensitivity(...)   every named deviation must be caught by TLC on a small focused scenario (runs side by side)
#   replay(...)        path cover of an emitted relation -> real Flooder/Manager network (harness/flood/floodinfo_net_test.go)
#   traces(...)        random schedules of the real network -> TraceFloodInfo.tla
import os, json
import vf, _replay as R

HFILES = ["common/common_test.go.tmpl", "flood/flood_net_test.go", "flood/floodinfo_net_test.go"]
SELFTEST = os.environ.get("VERIF_SELFTEST", "")

INVS_INFO = "TypeOK InfoProcessedOnce InfoForwardedOnce ChainsSimple MsgBound InfoMonotone InfoSane InfoConverged"
INVS_ROUTE = "RouteProcessedOnce RouteForwardedOnce NoResurrection WithdrawRespectsSequence Withdrawn RouteConverged"
INVS = INVS_INFO + " " + INVS_ROUTE
# what the pinned code does instead of the ideal design (confirmed on the real code by the replay, see G01.py)
AS_BUILT = ["DevWithdrawOnlyCidr", "DevWithdrawIgnoresSequence", "DevReplayResurrectsWithdrawn"]
# the invariants the code as built is still expected to satisfy
INVS_AS_BUILT = INVS_INFO + " RouteProcessedOnce RouteForwardedOnce"

A3 = ["a", "b", "c"]
A4 = ["a", "b", "c", "d"]
A6 = ["a", "b", "c", "d", "e", "f"]


def L(*pairs):
    return [sorted(p) for p in pairs]


AB, BC, AC = ("a", "b"), ("b", "c"), ("a", "c")


def sc(name, up, links=(), dlinks=None, loc=None, ia=None, ra=None, wn=None, conn=0, disc=0, exp=0, expat=None, forget=0, fifo=True, script=()):
    return dict(name=name, up=L(*up), links=L(*links), dlinks=L(*(links if dlinks is None else dlinks)), loc=loc or {}, ia=ia or {}, ra=ra or {}, wn=wn or {}, conn=conn,
                disc=disc, exp=exp, expat=expat, forget=forget, fifo=fifo, script=list(script))


# ---------------------------------------------------------------------------------------------- TLA text
def tla_str(x):
    return '"%s"' % x


def tla_set(xs):
    return "{" + ", ".join(xs) + "}"


def tla_links(links):
    return tla_set(tla_set(tla_str(a) for a in l) for l in links)


def tla_fn(d, default, conv=str):
    """agent -> value as a TLA+ function over Agent"""
    out = conv(default)
    for k in sorted(d):
        out = "IF a = %s THEN %s ELSE %s" % (tla_str(k), conv(d[k]), out)
    return "[a \\in Agent |-> %s]" % out


def scen_tla(s):
    return ("[name |-> %s, up |-> %s, links |-> %s, dlinks |-> %s, loc |-> %s, ia |-> %s, ra |-> %s, wn |-> %s, conn |-> %d, disc |-> %d, "
            "exp |-> %d, expat |-> %s, forget |-> %d, fifo |-> %s, script |-> <<%s>>]") % (
        tla_str(s["name"]), tla_links(s["up"]), tla_links(s["links"]), tla_links(s["dlinks"]),
        tla_fn(s["loc"], [], lambda v: tla_set(tla_str(r) for r in v)), tla_fn(s["ia"], 0), tla_fn(s["ra"], 0),
        tla_fn(s["wn"], 0), s["conn"], s["disc"], s["exp"],
        "Agent" if s["expat"] is None else tla_set(tla_str(a) for a in s["expat"]), s["forget"], "TRUE" if s["fifo"] else "FALSE",
        ", ".join(tla_str(x) for x in s["script"]))


def mc_files(scens, agents, dev=(), emit=True, invs=INVS, trace=False, base="FloodInfo"):
    """-> (module name, cfg name, files)"""
    mod = "MC" + base
    links = [[a, b] for i, a in enumerate(agents) for b in agents[i + 1:]]
    text = "---- MODULE %s ----\nEXTENDS %s\nMCScen == {\n %s\n}\n====\n" % (mod, base, ",\n ".join(scen_tla(s) for s in scens))
    cfg = ["CONSTANTS", " Agent = " + tla_set(tla_str(a) for a in agents), " Links = " + tla_links(links), " Scen <- MCScen",
           " Dev = " + tla_set(tla_str(d) for d in dev), " Emit = %s" % ("TRUE" if emit else "FALSE")]
    if trace:
        cfg += ["INIT TraceInit", "NEXT TraceNext", "CONSTRAINT HighWater", "POSTCONDITION TraceAccepted"]
    else:
        cfg += ["INIT Init", "NEXT Next", "VIEW view", "ACTION_CONSTRAINT EmitEdge"]
    if invs:
        cfg.append("INVARIANTS " + invs)
    return mod, "MC.cfg", {mod + ".tla": text, "MC.cfg": "\n".join(cfg) + "\n"}


# ---------------------------------------------------------------------------------------------- TLC
def model(ctx, scens, agents, dev=(), invs=INVS, name="ideal", emit=True, workers=4, expect_violation=False):
    mod, cfg, files = mc_files(scens, agents, dev=dev, emit=emit, invs=invs)
    r = ctx.tlc(mod, cfg, files=files, workers=workers, name=name, timeout=1500, expect_violation=expect_violation)
    if r.violated and not expect_violation:
        raise vf.Infra("FloodInfo spec (Dev = %s) violates %s on scenarios %s (specification error, see out/logs)" % (
            list(dev), r.violated, [s["name"] for s in scens]))
    return r


# small focused scenarios on which each deviation must be caught: deviation -> (scenario, agents)
def dev_scen(d):
    tri = (AB, BC, AC)
    if d == "DevInfoNoSeenMark":
        return sc("dev", tri, ia={"a": 1}), A3
    if d == "DevInfoStoresOlder":
        return sc("dev", (AB,), ia={"a": 2}, fifo=False), A3
    if d == "DevInfoForwardsToSeenBy":
        return sc("dev", tri, ia={"a": 1}), A3
    if d == "DevInfoReplaySkipsOwn":
        return sc("dev", (), links=(AB,), ia={"a": 1}, conn=1), A3
    if d == "DevInfoNotForwarded":
        return sc("dev", (AB, BC), ia={"a": 1}), A3
    if d == "DevWithdrawIgnoresSequence":
        # the link a-c comes up (a replays its routes to c under a fresh sequence) while the withdrawal travels via b
        return sc("dev", (AB, BC), links=(AC,), loc={"a": ["r1"]}, ra={"a": 1}, wn={"a": 1}, conn=1), A3
    if d == "DevReplayResurrectsWithdrawn":
        # c holds a's route directly and loses the link before the withdrawal; later it connects to b
        return sc("dev", (AB, AC), links=(BC,), dlinks=(AC,), loc={"a": ["r1"]}, ra={"a": 1}, wn={"a": 1}, conn=1, disc=1, exp=1), A3
    if d == "DevWithdrawOnlyCidr":
        return sc("dev", (AB,), loc={"a": ["r1", "r2"]}, ra={"a": 1}, wn={"a": 1}), A3
    if d == "DevWithdrawNoSeenMark":
        return sc("dev", tri, loc={"a": ["r1"]}, ra={"a": 1}, wn={"a": 1}), A3
    if d == "DevWithdrawNotForwarded":
        return sc("dev", (AB, BC), loc={"a": ["r1"]}, ra={"a": 1}, wn={"a": 1}), A3
    raise KeyError(d)


DEVS = ["DevInfoNoSeenMark", "DevInfoStoresOlder", "DevInfoForwardsToSeenBy", "DevInfoReplaySkipsOwn", "DevInfoNotForwarded",
        "DevWithdrawIgnoresSequence", "DevReplayResurrectsWithdrawn", "DevWithdrawOnlyCidr", "DevWithdrawNoSeenMark",
        "DevWithdrawNotForwarded"]


def sensitivity(ctx, devs=DEVS):
    """Dev = {d} must be caught for every d; the runs are tiny and cost mostly JVM start-up: side by side."""
    jobs = []
    for d in devs:
        s, agents = dev_scen(d)
        mod, cfg, files = mc_files([s], agents, dev=[d], emit=False)
        # tlc_many copies spec/ and writes one cfg; the generated MC module has to be there too
        jobs.append(dict(module=mod, cfg=files["MC.cfg"], name="dev-" + d, workers=1, heap="2g", files=files))
    res = tlc_many(ctx, jobs)
    caught = {}
    for d, r in zip(devs, res):
        if not r.violated:
            raise vf.Infra("deviation %s is not detected by the invariants (vacuous model)" % d)
        caught[d] = r.violated
    return caught


def tlc_many(ctx, jobs, par=4, timeout=1500):
    """like _replay.tlc_many, for jobs that carry generated files (the MC module): small TLC runs side by side (they cost
    mostly JVM start-up).  Same conventions as vf.Ctx.tlc: Infra on parse errors / unfinished runs, violations returned."""
    import subprocess, shutil, glob, time
    from concurrent.futures import ThreadPoolExecutor
    dirs = [ctx.scratch("tlcp_%d_%s" % (i, job["name"])) for i, job in enumerate(jobs)]

    def one(arg):
        job, d = arg
        for f in glob.glob(os.path.join(vf.SPEC, "*")):
            if os.path.isfile(f):
                shutil.copy(f, d)
        for fn, text in job["files"].items():
            with open(os.path.join(d, fn), "w") as f:
                f.write(text)
        cmd = ["java", "-XX:+UseParallelGC", "-Xss64m", "-Xmx%s" % job.get("heap", "2g"), "-cp", vf.TLA_CP, "tlc2.TLC",
               "-config", "MC.cfg", "-metadir", os.path.join(d, "states"), "-workers", str(job.get("workers", 1)),
               "-noGenerateSpecTE", "-deadlock", job["module"] + ".tla"]
        e = dict(os.environ)
        e.pop("JAVA_TOOL_OPTIONS", None)
        t = time.time()
        try:
            p = subprocess.run(cmd, cwd=d, env=e, stdout=subprocess.PIPE, stderr=subprocess.STDOUT, timeout=timeout,
                               text=True, errors="replace")
        except subprocess.TimeoutExpired:
            raise vf.Infra("TLC timeout on %s/%s" % (job["module"], job["name"]))
        res = vf.TLCResult()
        res.rc, res.out, res.wall = p.returncode, p.stdout, time.time() - t
        vf.parse_tlc_output(p.stdout, res)
        bad = None
        for pat in ("Parsing or semantic analysis failed", "java.lang.OutOfMemoryError", "StackOverflowError",
                    "TLC threw an unexpected exception", "Error: TLC encountered", "was not found", "Error: Evaluating",
                    "Error: The configuration file", "Error: In evaluation", "Error: Attempted to", "Error: The invariant",
                    "Error: TLC was unable", "Unknown operator", "Error: Parsing"):
            if pat in p.stdout:
                bad = pat
                break
        if (bad and res.violated is None) or (not res.ok and res.violated is None):
            ctx._keep_log(d, p.stdout, job["name"])
            raise vf.Infra("TLC failure (%s) on %s/%s:\n%s" % (bad or "did not finish", job["module"], job["name"],
                                                             "\n".join(p.stdout.splitlines()[-40:])))
        ctx.log("TLC %s/%s: %d generated, %d distinct, %d edges, %.1fs%s" % (
            job["module"], job["name"], res.generated, res.distinct, len(res.edges), res.wall,
            (" VIOLATED " + str(res.violated)) if res.violated else ""))
        if res.violated and not job["name"].startswith("dev-"):
            ctx._keep_log(d, p.stdout, job["name"])
        return res

    with ThreadPoolExecutor(max_workers=max(1, min(len(jobs), par))) as ex:
        return list(ex.map(one, zip(jobs, dirs)))


# ---------------------------------------------------------------------------------------------- replay
def is_init(s):
    return (not s["net"] and all(not v for v in s["tbl"].values()) and all(not v for v in s["seen"].values())
            and all(not v for v in s["iseen"].values()) and all(v == 0 for v in s["iseq"].values())
            and not s["pendR"] and not s["pendI"] and not s["gone"]
            and sum(s["ctr"].values()) == sum(len(v) for v in s["loc"].values()))


def cover(edges):
    """path cover per scenario, with the alternative post-states of every (s, a) (map iteration order of the replays)"""
    alts = {}
    for e in edges:
        alts.setdefault((vf.canon(e["s"]), vf.canon(e["a"])), {})[vf.canon(e["t"])] = e["t"]
    paths, nnodes, nedges = R.cover(edges, is_init)
    for p in paths:
        cur = p["init"]
        for st in p["steps"]:
            a = alts.get((vf.canon(cur), vf.canon(st["a"])), {})
            st["alts"] = [t for k, t in a.items() if k != vf.canon(st["t"])]
            cur = st["t"]
    return paths, nnodes, nedges


def compact(a):
    if a.get("act") == "Deliver":
        return "Deliver %s %s>%s %s#%s sb=%s %s" % (a["k"], a["src"], a["dst"], a["o"], a["seq"], ".".join(a["sb"]), a["res"])
    return " ".join(str(a[k]) if k != "l" else "-".join(a[k]) for k in ("act", "n", "p", "l", "o", "seq", "res") if a.get(k))


def replay(ctx, sets):
    """sets: [(tag, edges, agents)] -> one go test replays the path covers of all relations; returns {tag: dict}"""
    doc, out = [], {}
    for tag, edges, agents in sets:
        if not edges:
            raise vf.Infra("no edges emitted for %s" % tag)
        paths, nnodes, nedges = cover(edges)
        samples = []
        if paths:
            p = max(paths, key=lambda p: len(p["steps"]))
            samples.append({"relation": tag, "scenario": p["init"]["sc"], "path": [compact(s["a"]) for s in p["steps"][:16]]})
        if SELFTEST == "corrupt-replay" and tag == "asbuilt":
            # binding self-test: one expected post-state is falsified (the stored node-info sequence of some agent, or a
            # sequence number in a learned route)
            done = False
            for p in paths:
                for st in p["steps"]:
                    ents = [e for v in st["t"]["tbl"].values() for e in v]
                    if ents and not done:
                        st["t"] = json.loads(json.dumps(st["t"]))
                        [e for v in st["t"]["tbl"].values() for e in v][0]["seq"] += 1
                        st["alts"] = []
                        done = True
        doc.append({"tag": tag, "agents": agents, "paths": paths})
        out[tag] = {"paths": len(paths), "edges": nedges, "states": nnodes, "samples": samples, "tag": tag}
    inp = os.path.join(ctx.work, "floodinfo_paths.json")
    vf.write_json(inp, {"sets": doc})
    g = ctx.gotest("flood", HFILES, "^TestZZVFloodInfoReplay$", env={"ZZV_IN": inp}, timeout=1500)
    for tag in out:
        summ = [s for s in g.of("summary") if s.get("tag") == tag]
        if not summ:
            raise vf.Infra("replay harness produced no summary for %s:\n%s" % (tag, g.out[-3000:]))
        s = summ[0]
        if s["paths"] != out[tag]["paths"]:
            raise vf.Infra("replay harness ran %d of %d paths (%s)" % (s["paths"], out[tag]["paths"], tag))
        out[tag].update(steps=s["steps"], forks=s["forks"], mismatches=[m for m in g.of("mismatch") if m.get("tag") == tag])
    return out


# a difference between the IDEAL relation and the real code: which deviation is it?  (the replay of the AS_BUILT
# relation, which must be exact, confirms that these three are all there is)
def classify(mm):
    a = mm.get("a") or {}
    act, f = a.get("act"), mm.get("field")
    if act == "Withdraw" and f in ("ctr", "net", "res"):
        return "DevWithdrawOnlyCidr", "WithdrawLocalRoutes"
    if act == "Deliver" and a.get("k") == "wd" and f == "tbl":
        sp = mm.get("spec_entries") or []
        re = mm.get("real_entries") or []
        if sp and not re and all(e["seq"] > a["seq"] for e in sp):
            return "DevWithdrawIgnoresSequence", "HandleRouteWithdraw"
        if sp and not re and all(e["r"] != "r1" for e in sp):
            return "DevWithdrawOnlyCidr", "HandleRouteWithdraw"
    if act == "Deliver" and a.get("k") == "adv" and f == "tbl":
        sp = mm.get("spec_entries") or []
        re = mm.get("real_entries") or []
        wd = mm.get("spec_wd") or []
        if re and not sp and all(any(w["o"] == e["o"] and w["r"] == e["r"] and w["seq"] > e["seq"] for w in wd) for e in re):
            return "DevReplayResurrectsWithdrawn", "HandleRouteAdvertise"
    return None, "%s:%s" % (compact(a).split(" ")[0] + ("-" + a["k"] if a.get("k") else ""), f)


def describe(mm):
    f = mm.get("field")
    if f in ("ctr", "iseq"):
        return "%s of %s: spec %s, real %s" % (f, mm.get("node"), mm.get("spec"), mm.get("real"))
    if f == "res":
        return "spec outcome %s, real outcome %s" % (mm.get("spec"), mm.get("real"))
    return "%s%s: only in spec %s / only in real %s" % (f, (" of " + mm["node"]) if mm.get("node") else "",
                                                      mm.get("spec_only"), mm.get("real_only"))


# ---------------------------------------------------------------------------------------------- traces
def trace_scen():
    big = 10 ** 9
    allp = [(a, b) for i, a in enumerate(A6) for b in A6[i + 1:]]
    return sc("trace", (), links=allp, ia={a: big for a in A6}, ra={a: big for a in A6}, wn={a: big for a in A6},
              conn=big, disc=big, exp=big, forget=big, fifo=True)


def validate(ctx, tracefile, name, invs, dev):
    mod, cfg, files = mc_files([trace_scen()], A6, dev=dev, emit=False, invs=invs, trace=True, base="TraceFloodInfo")
    res = ctx.tlc(mod, cfg, files=files, workers=1, env={"TRACE_FILE": tracefile}, expect_violation=True, name=name,
                  timeout=1500, dump_trace=False)
    hw = [o for t, o in res.prints if t == "HW"]
    ln = [o for t, o in res.prints if t == "LEN"]
    events = []
    with open(tracefile) as f:
        for line in f:
            line = line.strip()
            if line:
                events.append(json.loads(line))
    if res.violated and res.violated != "postcondition":
        return {"accepted": False, "violated": res.violated, "hw": None, "len": len(events), "event": None, "context": None,
                "res": res}
    if not hw or not ln:
        raise vf.Infra("trace validation did not reach its postcondition:\n" + "\n".join(res.out.splitlines()[-40:]))
    h, n = hw[-1], ln[-1]
    ok = (h == n + 1)
    return {"accepted": ok, "violated": None if ok else "rejected", "hw": h, "len": n,
            "event": events[h - 1] if (not ok and 0 < h <= len(events)) else None,
            "context": events[max(0, h - 8):h] if not ok else None, "res": res}


def traces(ctx, ntraces, nops, name="g01trace"):
    out = os.path.join(ctx.work, name + ".ndjson")
    g = ctx.gotest("flood", HFILES, "^TestZZVFloodInfoTrace$", env={"ZZV_OUT": out, "ZZV_TRACES": ntraces, "ZZV_OPS": nops},
                   timeout=1500)
    summ = g.of("summary")
    if not summ:
        raise vf.Infra("trace harness produced no summary:\n" + g.out[-3000:])
    if SELFTEST == "corrupt-trace":
        # binding self-test: one logged field is falsified (a stored node-info sequence in one Deliver event)
        lines = open(out).read().splitlines()
        for i in range(len(lines) // 2, len(lines)):
            ev = json.loads(lines[i])
            if ev.get("ev") == "Deliver" and ev.get("k") == "info" and ev.get("res") == "new" and any(ev["st"]["info"].values()):
                o = [k for k, v in ev["st"]["info"].items() if v][0]
                ev["st"]["info"][o] += 1
                lines[i] = json.dumps(ev)
                break
        open(out, "w").write("\n".join(lines) + "\n")
    return {"summary": summ[0], "file": out, "preds": g.of("pred")}
