# C36 - Embedded configuration round-trips and malformed binaries are handled safely
#
# Interpretation (permissive side):
#  * "returns a result or an error without crashing and without reading outside the file": a panic is a crash; a size
#    returned by GetOriginalBinarySize that is negative or larger than the file is "outside the file" (its only use is
#    as a read length); for a malformed trailer (length word larger than the bytes in front of the footer) an error OR
#    any size inside the file is accepted; for a trailer with length 0 an error or an empty configuration, and the
#    original size S or S-16.
#  * a binary that already ends with the magic may be refused by AppendConfig (error) - refusing is not a wrong result.
#  * "reads inside the file" is observed through the results: returned bytes must be exactly the expected slice of the
#    file (the harness locates them), a copy must be a prefix of the file.
# Level: exploration (E4 vectors: TLC enumerates the bounded domain and checks oracle vs transcription; the harness
# evaluates the real functions on every vector).
import os, json
import vf

HF = ["common/common_test.go.tmpl", "embed/embed_test.go"]
W, MAXSIZE, F = 4, 23, 16   # MaxSize - F < 2^(W-1): a real file is smaller than 2^63 bytes
DEVS = {"DevSignedCast": "ReadOK", "DevNoLengthCheck": None}


def cfg(dev=(), emit=False):
    return ("CONSTANTS W = %d MaxSize = %d F = %d Dev = {%s} Emit = %s\nINIT Init\nNEXT Next\n"
            "INVARIANTS ReadOK HasOK OrigOK CopyOK EmitVec\n" % (
                W, MAXSIZE, F, ",".join('"%s"' % d for d in dev), "TRUE" if emit else "FALSE"))


def key_of(rec):
    """finding key: function + class of the length word (identifies the failing input class)"""
    return "Embed:%s:%s" % ("+".join(rec.get("funcs", [])) or rec.get("what", "?")[:40], rec.get("class", rec.get("kind", "?")))


def run(ctx):
    q = ctx.quick()
    ideal = ctx.tlc("Embed", "MC.cfg", files={"MC.cfg": cfg(emit=True)}, tags=("VEC",))
    if ideal.violated:
        raise vf.Infra("ideal Embed transcription violates %s (specification error)" % ideal.violated)
    vecs = [o for t, o in ideal.prints if t == "VEC"]
    # workers may print a vector more than once (invariant re-evaluation); make them unique
    uniq = {}
    for v in vecs:
        uniq[(v["size"], v["magic"], v["len"])] = v
    vecs = [uniq[k] for k in sorted(uniq)]
    if len(vecs) != (MAXSIZE + 1) * 2 * (2 ** W):
        raise vf.Infra("expected %d vectors from TLC, got %d" % ((MAXSIZE + 1) * 2 * 2 ** W, len(vecs)))
    caught = {}
    for d in DEVS:
        r = ctx.tlc("Embed", "MCdev.cfg", files={"MCdev.cfg": cfg(dev=[d])}, expect_violation=True, tags=("VEC",))
        if not r.violated:
            raise vf.Infra("deviation %s is not caught by the oracle (vacuous)" % d)
        caught[d] = r.violated

    inp = vf.write_json(os.path.join(ctx.work, "embed_vecs.json"), {"w": W, "vecs": vecs})
    r = ctx.gotest("embed", HF, "^TestZZVEmbedVectors$", env={"ZZV_IN": inp, "ZZV_CORRUPT": os.environ.get("ZZV_CORRUPT", "")})
    s1 = (r.of("summary") or [None])[0]
    if not s1:
        raise vf.Infra("vector harness produced no summary:\n" + r.out[-3000:])
    if s1["oracle_diff"]:
        raise vf.Infra("Go transcription of the oracle differs from TLC's oracle on %d vectors: %s" % (
            s1["oracle_diff"], r.of("oraclediff")[:1]))
    bad = r.of("bad")
    for rec in bad:
        dev = ""
        if rec.get("as_dev"):
            dev = " (exactly the behaviour of the deviating transcription DevSignedCast/DevNoLengthCheck)"
        ctx.finding(key_of(rec),
                    "file of %s bytes, magic=%s, footer length %s (%s): %s -> real %s%s" % (
                        rec["size"], rec["magic"], rec["len64"], rec["class"], ",".join(rec["funcs"]),
                        vf.canon(rec["real"]), dev), rec)

    n = 400 if q else 60000
    r2 = ctx.gotest("embed", HF, "^TestZZVEmbedRoundTrip$", env={"ZZV_N": n}, timeout=1500)
    s2 = (r2.of("summary") or [None])[0]
    if not s2:
        raise vf.Infra("round-trip harness produced no summary:\n" + r2.out[-3000:])
    for rec in r2.of("bad"):
        ctx.finding(key_of(rec) if rec.get("funcs") else "Embed:roundtrip:%s" % rec.get("what", "?").split(":")[0][:50],
                    "round trip / random trailer: %s %s" % (rec.get("what"), vf.canon({k: v for k, v in rec.items() if k not in ("k", "what")})[:600]), rec)

    drift = r.of("drift")
    if drift and not ctx.violations:
        raise vf.Infra("binding drift: the real functions satisfy the oracle but no longer follow the transcription in "
                       "Embed.tla on %d vectors, e.g. %s" % (len(drift), vf.canon(drift[0])[:800]))

    ctx.evidence("exploration",
                 assumptions=["64-bit footer words are represented by W=%d-bit words in the model; each model value is mapped to the "
                              "64-bit value with the same unsigned (small) or signed (near 2^64) meaning, plus the boundary "
                              "classes 2^63-2, 2^63-1, 2^63, 2^63+1, 2^62 judged by the Go transcription of the oracle "
                              "(cross-checked against TLC's oracle on all %d vectors)" % (W, len(vecs)),
                              "reads outside the file are detected through results (returned bytes must be the expected slice), "
                              "not by tracing system calls",
                              "file system errors (permissions, short reads) are not injected"],
                 evaluations=s1["evaluations"] + s2["evaluations"],
                 distinct_nontrivial=s1["classes"] + s2["classes"],
                 rule="TLC enumerates every (file size 0..%d, magic present?, %d-bit footer length) = %d vectors and checks "
                      "transcription-vs-oracle; each becomes a real file (+ extra 64-bit boundary lengths) on which Has/Read/"
                      "OriginalSize/Copy run; then %d seeded random embed/read/strip round trips (binaries ending with the magic, "
                      "a partial magic, magic inside, in-place embedding, stored config ending with the magic) each followed by a "
                      "random malformed trailer.  distinct_nontrivial counts distinct (size class, magic, length class, read "
                      "outcome, size outcome) resp. (kind, in-place, size buckets) classes seen." % (MAXSIZE, W, len(vecs), n),
                 exhaustive=False,
                 tlc_vectors=len(vecs), tlc_states=ideal.distinct, deviations_caught=caught,
                 vector_evaluations=s1["evaluations"], vector_bad=s1["bad"], transcription_drift=s1["drift"],
                 roundtrips=n, roundtrip_bad=s2["bad"], refused_already_embedded=s2["refused"],
                 samples=(s1.get("samples") or [])[:4] + (s2.get("samples") or [])[:3])
