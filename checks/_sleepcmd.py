# SleepCmd.tla <-> flood.Flooder sleep/wake command handling + agent.handleQueuedState   (C28, C29)
#
# Pipeline (shared by C28.py and C29.py, each reports the findings that concern its own statement):
#   1. TLC, exhaustive, on two bounded instances of spec/SleepCmd.tla
#        "flood": the Flooder with clock 0..MaxClock, cleanup() as a step       (paths: flooded SLEEP / WAKE frame)
#        "agent": a whole agent at one clock value                              (paths: + command inside QUEUED_STATE)
#      ideal design (Dev = {}): all invariants / action properties hold, every transition emitted as JSON;
#      each deviation alone (Dev = {d}): TLC must find a counterexample to the property-level invariant;
#      all deviations, one deviation step from ideal states (OneDev): relation used to classify mismatches.
#   2. replay on the real code: an edge cover of the ideal relation and TLC's counterexamples are executed
#        on real flood.Flooder objects  (harness/flood/sleepcmd_test.go, real Ed25519 keys, real-time clock units),
#        on a real agent in cmesh with puppet peers (harness/agent/sleepcmd_test.go).
#   3. verdicts only from the real behaviour: a replay mismatch in signed mode, or a counterexample that the real
#      code follows to its end, is a finding keyed "SleepCmd:<deviation>:<site>".
import os, json, threading, time
import vf

MODULE = "MCSleepCmd"
HF_FLOOD = ["common/common_test.go.tmpl", "flood/sleepcmd_test.go"]
HF_AGENT = ["common/common_test.go.tmpl", "agent/cmesh_test.go", "agent/sleepcmd_test.go"]

ALL_INVS = "TypeOK OnlyAuthenticActs PendingAuthentic AtMostOnce RememberedWhileValid NoPoisoning NeverSuppressed"
ALL_PROPS = "OnlyAuthenticEffects RejectedChangesNothing"

# deviation -> owning property, property-level invariant TLC must see violated, code site, instance that shows it
DEVINFO = {
    "DevQueuedPathUnverified": dict(prop="C28", inv="OnlyAuthenticActs", site="agent.handleQueuedState", inst="agent"),
    "DevMarkSeenBeforeVerify": dict(prop="C29", inv="NeverSuppressed", site="flood.markSleepCmdSeen", inst="flood"),
    "DevCacheForgetsInsideWindow": dict(prop="C29", inv="AtMostOnce", site="flood.cleanupSleepCmdCache", inst="flood"),
    "DevSizeEviction": dict(prop="C29", inv="AtMostOnce", site="flood.cleanupSleepCmdCache", inst="flood"),
    # pending wake stored before verification: the forged wake is forwarded to the next peer that connects
    "DevPendingBeforeVerify": dict(prop="C28", inv="OnlyAuthenticActs", site="flood.HandleWakeCommand", inst="aux"),
    # the signing key reaches the flooder only with sleep mode enabled: a relay accepts and forwards forged commands
    "DevRelayUnverified": dict(prop="C28", inv="OnlyAuthenticActs", site="agent.initComponents", inst="agent"),
    # cleanup in two critical sections: needs Receive CONCURRENT with cleanup(); the sequential replays cannot take
    # this step, the concurrent driver (TestZZVSleepCmdConc) looks for its consequence on the real code
    "DevCleanupLosesConcurrentInsert": dict(prop="C29", inv="AtMostOnce", site="flood.cleanup", inst="conc", replay=False),
}
DEVS = list(DEVINFO)


def instances(ctx):
    """Bounded instances (constants of SleepCmd.tla)."""
    if ctx.quick():
        flood = dict(maxclock=4, w=2, ttl=2, cap=1, genuine={"a": 3, "b": 0}, forged=["f"], local=[],
                     keymodes=[True], paths=["sleep", "wake"], peers=["p1", "p2"], newpeers=[], maint=True)
        aux = dict(maxclock=3, w=2, ttl=2, cap=1, genuine={"a": 1}, forged=[], local=["a"],
                   keymodes=[True, False], paths=["sleep", "wake"], peers=["p1", "p2"], newpeers=["n1"], maint=True)
        agent = dict(maxclock=0, w=2, ttl=2, cap=100, genuine={"a": 0, "c": 3}, forged=["f"], local=[],
                     keymodes=[True], paths=["sleep", "wake", "qsleep", "qwake"], peers=["p1", "p2"], newpeers=["n1"],
                     maint=False)
    else:
        flood = dict(maxclock=6, w=2, ttl=2, cap=1, genuine={"a": 3, "b": 0, "c": 5}, forged=["f"], local=[],
                     keymodes=[True], paths=["sleep", "wake"], peers=["p1", "p2"], newpeers=[], maint=True)
        aux = dict(maxclock=3, w=2, ttl=2, cap=1, genuine={"a": 1}, forged=["f"], local=["a"],
                   keymodes=[True, False], paths=["sleep", "wake"], peers=["p1", "p2"], newpeers=["n1"], maint=True)
        agent = dict(maxclock=0, w=2, ttl=2, cap=100, genuine={"a": 0, "b": 2, "c": 3, "d": -3},
                     forged=["f"], local=[], keymodes=[True],
                     paths=["sleep", "wake", "qsleep", "qwake"], peers=["p1", "p2"], newpeers=["n1"], maint=False)
    agent["sleepmodes"] = [True, False]     # a relay (sleep mode off) with a signing key still has to verify
    # TLC only: cleanup() as CleanupScan / CleanupSwap with commands handled in between
    conc = dict(maxclock=1, w=2, ttl=2, cap=1, genuine={"a": 0, "b": 1}, forged=["f"], local=[], keymodes=[True],
                paths=["sleep", "wake"], peers=["p1", "p2"], newpeers=[], maint=True, split=True)
    return {"flood": flood, "aux": aux, "agent": agent, "conc": conc}


REPLAYED = ("flood", "aux", "agent")      # instances bound to the real code by replay


def trace_instance(ctx):
    """Constants of the randomly driven Flooders (code -> spec): larger than the exhaustive instances."""
    if ctx.quick():
        return dict(maxclock=5, w=2, ttl=2, cap=2, genuine={"a": 0, "b": 2, "c": 3, "d": 5}, forged=["f", "g"],
                    local=["b"], keymodes=[True, False], paths=["sleep", "wake"], peers=["p1", "p2", "p3"],
                    newpeers=["n1"], maint=True, traces=150, ops=60)
    return dict(maxclock=8, w=2, ttl=2, cap=3, genuine={"a": -1, "b": 1, "c": 3, "d": 4, "e": 6, "g": 9}, forged=["f", "h", "i"],
                local=["c"], keymodes=[True, False], paths=["sleep", "wake"], peers=["p1", "p2", "p3"],
                newpeers=["n1", "n2"], maint=True, traces=2000, ops=120)


def _set(xs):
    return "{" + ",".join('"%s"' % x for x in xs) + "}"


def _constants(inst, dev, onedev, emit):
    return ("CONSTANTS MaxClock = %d W = %d TTL = %d Cap = %d\n Genuine <- MCGenuine\n ForgedIds = %s LocalIds = %s\n"
            " KeyModes = {%s} SleepModes = {%s}\n Paths = %s Peers = %s NewPeers = %s Maintenance = %s SplitCleanup = %s\n"
            " Dev = %s OneDev = %s Emit = %s\n" % (
                inst["maxclock"], inst["w"], inst["ttl"], inst["cap"], _set(inst["forged"]), _set(inst["local"]),
                ",".join("TRUE" if k else "FALSE" for k in inst["keymodes"]),
                ",".join("TRUE" if k else "FALSE" for k in inst.get("sleepmodes", [True])),
                _set(inst["paths"]), _set(inst["peers"]),
                _set(inst["newpeers"]), "TRUE" if inst["maint"] else "FALSE", "TRUE" if inst.get("split") else "FALSE",
                _set(dev), "TRUE" if onedev else "FALSE", "TRUE" if emit else "FALSE"))


def _mcmodule(name, base, inst):
    gen = ", ".join('[id |-> "%s", ts |-> %d]' % (i, t) for i, t in sorted(inst["genuine"].items()))
    return "---- MODULE %s ----\nEXTENDS %s\nMCGenuine == {%s}\n====\n" % (name, base, gen)


def mcfiles(inst, dev=(), onedev=False, emit=True, invs=ALL_INVS, props=ALL_PROPS, view="view"):
    cfg = _constants(inst, dev, onedev, emit) + "INIT Init\nNEXT Next\nVIEW %s\nACTION_CONSTRAINT EmitEdge\n%s%s" % (
        view, ("INVARIANTS " + invs + "\n") if invs else "", ("PROPERTIES " + props + "\n") if props else "")
    return {MODULE + ".tla": _mcmodule(MODULE, "SleepCmd", inst), "MC.cfg": cfg}


TRACE_INVS = "OnlyAuthenticActs PendingAuthentic AtMostOnce RememberedWhileValid NoPoisoning NeverSuppressed"


def tracefiles(inst, dev=(), invs=TRACE_INVS):
    cfg = _constants(inst, dev, False, False) + "INIT TraceInit\nNEXT TraceNext\nCONSTRAINT HighWater\n%sPOSTCONDITION TraceAccepted\n" % (
        ("INVARIANTS " + invs + "\n") if invs else "")
    return {"MCTraceSleepCmd.tla": _mcmodule("MCTraceSleepCmd", "TraceSleepCmd", inst), "MCTrace.cfg": cfg}


class Par:
    """Run several blocking jobs (TLC / go test) concurrently; the first exception is re-raised by join()."""

    def __init__(self):
        self.threads, self.out, self.err = [], {}, []

    def go(self, job, fn, *a, **kw):
        def run():
            try:
                self.out[job] = fn(*a, **kw)
            except BaseException as e:  # noqa
                self.err.append(e)
        t = threading.Thread(target=run, daemon=True)
        t.start()
        self.threads.append(t)
        time.sleep(0.15)   # ctx.tlc / ctx.gotest number their scratch directories at call time

    def join(self):
        for t in self.threads:
            t.join()
        if self.err:
            raise self.err[0]
        return self.out


def proj(st):
    return {k: st[k] for k in ("key", "sleepon", "clock", "cache", "st", "pend")}


def strip(e):
    return {"s": proj(e["s"]), "a": e["a"], "t": proj(e["t"])}


def is_init(s):
    return s["clock"] == 0 and s["st"] == "awake" and s["pend"]["id"] == "none" and \
        all(e["at"] < 0 for e in s["cache"].values())


def base_act(a):
    return {k: v for k, v in a.items() if k not in ("res", "fwd", "dev")}


def obs_res(a):
    """The part of the spec's result that the harnesses can observe."""
    if a.get("act") == "Receive":
        return "accept" if a.get("res") == "accept" else "reject"
    if a.get("act") == "PeerConnected":
        return "none" if a.get("res") == "expired" else a.get("res")
    return ""


# --------------------------------------------------------------------------------------------- TLC
def act_class(e):
    a = e["a"]
    c = a["act"]
    if c == "Receive":
        return "Receive:%s:%s" % (a["path"], a["res"])
    if c == "PeerConnected":
        return "PeerConnected:" + ("forward" if a["fwd"] else a["res"])
    if c == "Cleanup":
        return "Cleanup:" + ("removes" if e["s"]["cache"] != e["t"]["cache"] else "nothing")
    return c


class Rel:
    """Edge relation split into the ideal part and the one-deviation-step part."""

    def __init__(self, r):
        self.tlc = r
        self.edges = [e for e in r.edges if "dev" not in e["a"]]
        self.classes = {}
        for e in self.edges:
            k = act_class(e)
            self.classes[k] = self.classes.get(k, 0) + 1
        self.dev = {}
        for e in r.edges:
            if "dev" in e["a"]:
                self.dev.setdefault((vf.canon(e["s"]), vf.canon(base_act(e["a"]))), []).append(e)


def model(ctx, insts):
    """All TLC runs (concurrently).  Per instance: (1) ideal design, every invariant / action property, full view;
    (2) the transition relation as JSON: ideal transitions plus one deviation step from every ideal state (OneDev),
    ghosts hidden.  Per deviation: Dev = {d} against the property-level invariant -> shortest counterexample."""
    par = Par()
    w = 2 if ctx.quick() else 4
    heap = "1g" if ctx.quick() else "4g"      # small heaps: a dozen JVMs run side by side
    for name, inst in insts.items():
        par.go("ideal:" + name, ctx.tlc, MODULE, "MC.cfg", files=mcfiles(inst, emit=False), workers=w,
               name="ideal-" + name, heap=heap)
        if name in REPLAYED:
            par.go("rel:" + name, ctx.tlc, MODULE, "MC.cfg",
                   files=mcfiles(inst, dev=DEVS, onedev=True, invs="", props="", view="viewCore"), workers=w,
                   name="rel-" + name, heap=heap)
    for d, info in DEVINFO.items():
        par.go("cex:" + d, ctx.tlc, MODULE, "MC.cfg",
               files=mcfiles(insts[info["inst"]], dev=[d], emit=False, invs=info["inv"], props=""), workers=1,
               expect_violation=True, name="cex-" + d, heap=heap)
    out = par.join()
    res = {"ideal": {}, "rel": {}, "cex": {}, "caught": {}}
    for name in insts:
        r = out["ideal:" + name]
        if r.violated:
            raise vf.Infra("ideal SleepCmd spec (%s instance) violates %s (specification error)" % (name, r.violated))
        res["ideal"][name] = r
        if name not in REPLAYED:
            continue
        res["rel"][name] = Rel(out["rel:" + name])
        if not res["rel"][name].edges:
            raise vf.Infra("no edges emitted for instance " + name)
    # non-vacuity: every action / outcome class of the ideal design is taken in some instance
    seen = set()
    for name in REPLAYED:
        seen |= set(res["rel"][name].classes)
    need = ["Receive:%s:%s" % (p, r) for p in ("sleep", "wake", "qsleep", "qwake") for r in ("accept", "invalid", "dup", "loop")] + \
           ["Tick", "Cleanup:removes", "Cleanup:nothing", "PeerConnected:forward", "PeerConnected:none",
            "PeerConnected:expired", "LocalIssue"]
    missing = [c for c in need if c not in seen]
    if missing:
        raise vf.Infra("vacuous model: no transition of class %s in any instance" % missing)
    for d, info in DEVINFO.items():
        r = out["cex:" + d]
        if r.violated != info["inv"]:
            raise vf.Infra("deviation %s not detected by invariant %s (got %s): vacuous model" % (d, info["inv"], r.violated))
        if not r.trace:
            raise vf.Infra("no counterexample trace dumped for " + d)
        states = [s for _, s in r.trace["counterexample"]["state"]]
        res["cex"][d] = {"label": "cex:" + d, "init": proj(states[0]),
                         "steps": [{"a": s["last"], "t": proj(s)} for s in states[1:]]}
        res["caught"][d] = r.violated
    return res


# --------------------------------------------------------------------------------------------- edge cover
def cover(edges, max_len=150):
    """Edge cover of the ideal relation: every transition is the step of at least one path starting in an initial
    state.  Walks follow uncovered edges greedily (a short bounded search bridges to the next uncovered edge) and
    are prefixed by the shortest path from an initial state (BFS tree).  An action with several possible post-states
    (eviction victims are chosen by map iteration order) ends its path: the real code may take any of them ('alts').
    Linear in the number of edges (the library's path_cover is quadratic on relations of 10^5 edges)."""
    succ = {}
    for e in map(strip, edges):
        succ.setdefault((vf.canon(e["s"]), vf.canon(e["a"])), {})[vf.canon(e["t"])] = e
    nodes, out, nondet = {}, {}, []
    for (ks, ka), ts in succ.items():
        es = list(ts.values())
        nodes.setdefault(ks, es[0]["s"])
        for kt, e in ts.items():
            nodes.setdefault(kt, e["t"])
        if len(es) == 1:
            out.setdefault(ks, []).append((es[0], vf.canon(es[0]["t"])))
        else:
            nondet.append((ks, es))
    inits = [k for k, s in nodes.items() if is_init(s)]
    if not inits:
        raise vf.Infra("cover: no initial state")
    pred, order = {k: None for k in inits}, list(inits)

    def bfs(q):
        while q:
            nq = []
            for u in q:
                for e, v in out.get(u, []):
                    if v not in pred:
                        pred[v] = (u, e, None)
                        nq.append(v)
                        order.append(v)
            q = nq
    bfs(list(inits))
    # states reachable only through a nondeterministic step: such a step may appear inside a prefix (with its alts);
    # the paths behind it are replicated, the real code decides which replica gets through
    nd_out = {}
    for ks, es in nondet:
        nd_out.setdefault(ks, []).append(es)
    grown = True
    while grown:
        grown = False
        for u in list(order):
            for es in nd_out.get(u, []):
                for e in es:
                    v = vf.canon(e["t"])
                    if v not in pred:
                        pred[v] = (u, e, [x["t"] for x in es])
                        order.append(v)
                        bfs([v])
                        grown = True

    def prefix(k):
        steps = []
        while pred[k] is not None:
            u, e, alts = pred[k]
            st = {"a": e["a"], "t": e["t"]}
            if alts:
                st["alts"] = alts
            steps.append(st)
            k = u
        steps.reverse()
        return k, steps

    nxt = {k: 0 for k in out}          # per node: index of the first possibly uncovered out-edge
    covered = set()

    def uncovered(u):
        lst = out.get(u, [])
        i = nxt.get(u, 0)
        while i < len(lst) and id(lst[i][0]) in covered:
            i += 1
        if u in nxt:
            nxt[u] = i
        return lst[i] if i < len(lst) else None

    def bridge(u, budget=60):
        # bounded BFS to a node that still has an uncovered out-edge
        seen, q = {u: None}, [u]
        while q and budget > 0:
            nq = []
            for x in q:
                budget -= 1
                if x != u and uncovered(x) is not None:
                    p = []
                    while seen[x] is not None:
                        y, e = seen[x]
                        p.append((e, x))
                        x = y
                    p.reverse()
                    return p
                for e, v in out.get(x, []):
                    if v not in seen:
                        seen[v] = (x, e)
                        nq.append(v)
            q = nq
        return None

    paths, nedges = [], 0
    for k in order:
        while uncovered(k) is not None:
            init, steps = prefix(k)
            cur = k
            while len(steps) < max_len:
                nx = uncovered(cur)
                if nx is None:
                    br = bridge(cur)
                    if br is None or len(steps) + len(br) >= max_len:
                        break
                    for e, v in br:
                        steps.append({"a": e["a"], "t": e["t"]})
                        cur = v
                    continue
                e, v = nx
                covered.add(id(e))
                nedges += 1
                steps.append({"a": e["a"], "t": e["t"]})
                cur = v
            paths.append({"label": "cover", "init": nodes[init], "steps": steps})
    unreach = [ks for ks in out if ks not in pred]
    if unreach:
        raise vf.Infra("cover: %d states are not reachable over deterministic edges" % len(unreach))
    for ks, es in nondet:
        if ks not in pred:
            raise vf.Infra("cover: state of a nondeterministic step is not reachable over deterministic edges")
        init, steps = prefix(ks)
        steps.append({"a": es[0]["a"], "t": es[0]["t"], "alts": [e["t"] for e in es]})
        paths.append({"label": "cover", "init": nodes[init], "steps": steps})
        nedges += len(es)
    # replicate the paths that pass a nondeterministic step before their last one
    grp, extra = 0, []
    for p in paths:
        if any("alts" in x for x in p["steps"][:-1]):
            grp += 1
            p["grp"] = grp
            for _ in range(2):
                extra.append(dict(p))
    paths.extend(extra)
    return paths, len(nodes), nedges, len(nondet)


# --------------------------------------------------------------------------------------------- replay drivers
def harness_input(inst, paths, **extra):
    d = {"w": inst["w"], "ttl": inst["ttl"], "cap": inst["cap"], "genuine": inst["genuine"], "forged": inst["forged"],
         "peers": inst["peers"], "newpeers": inst["newpeers"], "paths": paths}
    d.update(extra)
    return d


def compact(paths):
    """States and actions stored once, paths as index pairs (the flood relation has 10^5 edges)."""
    states, acts, si, ai = [], [], {}, {}

    def idx(tab, ix, o):
        k = vf.canon(o)
        if k not in ix:
            ix[k] = len(tab)
            tab.append(o)
        return ix[k]
    out = [{"label": p["label"], "init": idx(states, si, p["init"]),
            "steps": [[idx(acts, ai, x["a"]), idx(states, si, x["t"])] for x in p["steps"]]} for p in paths]
    return states, acts, out


def unit_ms(ctx):
    """Real time per model clock unit (>= 2.5 s: timestamps have a granularity of one second)."""
    return int(os.environ.get("VERIF_SLEEPCMD_UNIT_MS", "3000" if ctx.quick() else "4000"))


def replay_flood(ctx, name, inst, paths):
    """Executes the paths on real Flooders.  Stalled paths (a step left the safe zone of its clock value) are re-run
    with a larger time unit; never a verdict."""
    unit = unit_ms(ctx)
    todo = list(range(len(paths)))
    recs, steps, rounds = {}, 0, 0
    while todo:
        rounds += 1
        if rounds > 4:
            raise vf.Infra("flood replay (%s): %d paths still stalled after 4 rounds (machine too loaded for unit %d ms)"
                           % (name, len(todo), unit))
        fn = os.path.join(ctx.work, "sleepcmd_%s_%d.json" % (name, rounds))
        states, acts, cp = compact([paths[i] for i in todo])
        vf.write_json(fn, harness_input(inst, cp, states=states, acts=acts, unit_ms=unit, slack_ms=unit // 2 - 700,
                                        spread_ms=unit))
        r = ctx.gotest("flood", HF_FLOOD, "^TestZZVSleepCmdReplay$", env={"ZZV_IN": fn}, timeout=600)
        summ = r.of("summary")
        if not summ:
            raise vf.Infra("flood replay produced no summary:\n" + r.out[-3000:])
        steps += summ[0]["steps"]
        stalled = []
        for rec in r.of("path"):
            gi = todo[rec["path"]]
            rec["path"] = gi
            if rec["status"] == "stalled":
                stalled.append(gi)
            else:
                recs[gi] = rec
        ctx.log("flood replay %s round %d: %d paths, %d steps, %d mismatches, %d stalled, %d ms" % (
            name, rounds, len(todo), summ[0]["steps"], summ[0]["mismatch"], len(stalled), summ[0]["wall_ms"]))
        todo = stalled
        unit = unit * 3 // 2
    return recs, steps


def replay_agent(ctx, name, inst, paths):
    fn = os.path.join(ctx.work, "sleepcmd_%s.json" % name)
    vf.write_json(fn, harness_input(inst, paths, unit_s=120))
    r = ctx.gotest("agent", HF_AGENT, "^TestZZVSleepCmdAgent$", env={"ZZV_IN": fn}, timeout=900)
    summ = r.of("summary")
    if not summ:
        raise vf.Infra("agent replay produced no summary:\n" + r.out[-3000:])
    recs = {rec["path"]: rec for rec in r.of("path")}
    ctx.log("agent replay %s: %d paths, %d steps, %d mismatches, %d ms" % (
        name, len(paths), summ[0]["steps"], summ[0]["mismatch"], summ[0]["wall_ms"]))
    return recs, summ[0]["steps"], r.of("real")


def validate(ctx, inst, tracefile, dev=(), invs=TRACE_INVS, name="trace"):
    """TLC decides whether the recorded executions are behaviours of SleepCmd (with the deviations `dev` enabled)."""
    res = ctx.tlc("MCTraceSleepCmd", "MCTrace.cfg", files=tracefiles(inst, dev, invs), workers=1,
                  env={"TRACE_FILE": tracefile}, expect_violation=True, name=name, dump_trace=False, timeout=1800)
    hw = [o for t, o in res.prints if t == "HW"]
    ln = [o for t, o in res.prints if t == "LEN"]
    if res.violated and res.violated != "postcondition":
        return {"accepted": False, "violated": res.violated, "hw": hw[-1] if hw else None, "res": res}
    if not hw or not ln:
        raise vf.Infra("trace validation did not reach its postcondition:\n" + res.out[-3000:])
    return {"accepted": hw[-1] == ln[-1] + 1, "violated": None, "hw": hw[-1], "len": ln[-1], "res": res}


def traces(ctx, pid, stats):
    """code -> spec: random adversarial schedules on real Flooders, validated by TLC against the ideal design."""
    inst = trace_instance(ctx)
    unit = unit_ms(ctx)
    fn = os.path.join(ctx.work, "sleepcmd_trace_in.json")
    out = os.path.join(ctx.work, "sleepcmd_trace.ndjson")
    for rounds in range(1, 4):
        # executions in which a step left the safe zone of its clock value are not logged; too few left -> larger unit
        d = harness_input(inst, [], unit_ms=unit, slack_ms=unit // 2 - 700, spread_ms=unit, local=inst["local"],
                          maxclock=inst["maxclock"], traces=inst["traces"], ops=inst["ops"])
        vf.write_json(fn, d)
        r = ctx.gotest("flood", HF_FLOOD, "^TestZZVSleepCmdTrace$", env={"ZZV_IN": fn, "ZZV_OUT": out}, timeout=900)
        summ = r.of("summary")
        if not summ:
            raise vf.Infra("trace driver produced no summary:\n" + r.out[-3000:])
        summ = summ[0]
        ctx.log("trace driver round %d: %d executions logged, %d stalled, unit %d ms" % (rounds, summ["traces"],
                                                                                        summ["stalled"], unit))
        if summ["traces"] >= max(20, inst["traces"] // 3):
            break
        unit = unit * 3 // 2
    else:
        raise vf.Infra("trace driver: %d of %d executions left their time zones (machine too loaded)" % (
            summ["stalled"], inst["traces"]))
    events = []
    with open(out) as f:
        for line in f:
            events.append(json.loads(line))
    v = validate(ctx, inst, out, name="trace-ideal")
    info = {"inst": inst, "summary": summ, "hw": v["hw"], "events": events, "accepted": v["accepted"]}
    stats["trace"] = {"traces": summ["traces"], "stalled": summ["stalled"], "events": summ["events"],
                      "accepts": summ["accepts"], "accepted_by_spec": v["accepted"]}
    if v["accepted"]:
        return info
    # rejected (or an invariant failed on a recorded state): which deviation explains the execution?
    hw = v["hw"] or 1
    ev = events[hw - 1] if 0 < hw <= len(events) else None
    start = max(i for i in range(hw) if events[i]["ev"] == "Reset") if ev else 0
    context = events[start:hw]
    if ev and not (ev.get("st") or {}).get("key", True):
        stats["nokey"].append("trace validation: event #%d %s" % (hw, json.dumps(ev)))
        return info
    explained = None
    for devs in ([d] for d in DEVS if DEVINFO[d]["inst"] in ("flood", "aux") and DEVINFO[d].get("replay", True)):
        w = validate(ctx, inst, out, dev=devs, invs="", name="trace-" + devs[0])
        if w["accepted"] or (w["hw"] or 0) > hw:
            explained = devs[0]
            break
    if explained:
        key = "SleepCmd:%s:%s" % (explained, DEVINFO[explained]["site"])
        owner = DEVINFO[explained]["prop"]
    else:
        a = ev or {}
        prev = events[hw - 2] if hw >= 2 else {}
        eff = a.get("res") == "accept" or (a.get("st", {}).get("pend") != prev.get("st", {}).get("pend", a.get("st", {}).get("pend")))
        auth = a.get("sig") == "valid" and abs(a.get("st", {}).get("clock", 0) - a.get("ts", 0)) <= inst["w"]
        owner = "C28" if (a.get("ev") == "PeerConnected" or (a.get("ev") == "Receive" and eff and not auth)) else "C29"
        key = "SleepCmd:trace-%s:%s:%s" % ("invariant-" + v["violated"] if v["violated"] else "rejected", a.get("ev"), a.get("res"))
    stats["by_key"][key] = stats["by_key"].get(key, 0) + 1
    if owner == pid:     # reported by run() after the replays (their artefacts are the shorter histories)
        what = ("recorded execution of the real Flooder violates invariant %s of SleepCmd.tla" % v["violated"]) if v["violated"] \
            else "recorded execution of the real Flooder is not a behaviour of the ideal SleepCmd.tla"
        info["finding"] = (key, "%s: event #%d %s cannot be matched%s; history of this execution: %s" % (
            what, hw, json.dumps(ev), (" (explained by " + explained + ")") if explained else "",
            " ; ".join(fmt_ev(e) for e in context[-12:])), {"event_index": hw, "event": ev, "context": context[-40:]})
    return info


def fmt_ev(e):
    if e["ev"] == "Receive":
        return "Receive(%s from %s id=%s sig=%s ts=%s%s)=>%s@%d" % (e["path"], e["from"], e["id"], e["sig"], e["ts"],
                                                                 " loop" if e["loop"] else "", e["res"], e["st"]["clock"])
    if e["ev"] == "LocalIssue":
        return "LocalIssue(%s %s)" % (e["kind"], e["id"])
    if e["ev"] == "PeerConnected":
        return "PeerConnected(%s)=>%s" % (e["p"], e["res"])
    return e["ev"]


def concurrent(ctx):
    """Receive concurrent with cleanup() on a real Flooder with a large cache (what SplitCleanup models): fresh valid
    commands are delivered and immediately replayed while goroutines loop cleanup(); the oracle is the property itself
    (each command acted on at most once, and a fresh command is accepted)."""
    q = ctx.quick()
    # a moderate cache: many cleanup() cycles during the deliveries (every cycle has one scan/swap boundary), each scan
    # still long enough for the workers' deliveries to arrive inside it
    env = {"ZZV_FILL": 5000 if q else 20000, "ZZV_CMDS": 2000 if q else 12000, "ZZV_WORKERS": 4, "ZZV_CLEANERS": 1 if q else 2}
    r = ctx.gotest("flood", HF_FLOOD, "^TestZZVSleepCmdConc$", env=env, timeout=900)
    summ = r.of("summary")
    if not summ:
        raise vf.Infra("concurrent driver produced no summary:\n" + r.out[-3000:])
    summ = summ[0]
    if summ["overlapped"] < summ["commands"] // 10:
        raise vf.Infra("concurrent driver: only %d of %d deliveries overlapped a cleanup() call (no concurrency reached)"
                       % (summ["overlapped"], summ["commands"]))
    summ["cases"] = r.of("twice")
    summ["rejected_cases"] = r.of("fresh-rejected")
    ctx.log("concurrent driver: %d commands, %d deliveries, %d cleanups over %d entries, %d overlapped, %d acted on twice" % (
        summ["commands"], summ["deliveries"], summ["cleanups"], summ["cache_entries"], summ["overlapped"], summ["twice"]))
    return summ


# --------------------------------------------------------------------------------------------- classification
def pre_state(path, si):
    return path["init"] if si == 0 else path["steps"][si - 1]["t"]


def authentic(a, s, inst):
    return a.get("sig") == "valid" and abs(s["clock"] - a.get("ts", 0)) <= inst["w"]


def proj_agent(st):
    """What the agent-level harness can observe of a state: sleep state and size of the sleep-command cache."""
    return {"st": st["st"], "n": len([1 for e in st["cache"].values() if e["at"] >= 0])}


def obs_res_edge(e, pr):
    r = obs_res(e["a"])
    if pr is proj_agent and e["a"].get("act") == "Receive" and r == "accept" and not e["a"].get("fwd") \
            and e["s"]["st"] == e["t"]["st"]:
        return "reject"     # an acceptance without forward and without state change is invisible on a whole agent
    return r


def classify(rec, path, rel, pr):
    """Which deviation action explains the real transition?  (s, a) from the path, (result, post-state) observed."""
    si = rec["step"]
    s, a = vf.canon(proj(pre_state(path, si))), vf.canon(base_act(path["steps"][si]["a"]))
    rt = vf.canon(rec["real_t"])
    for e in rel.dev.get((s, a), []):
        if vf.canon(pr(e["t"])) == rt and obs_res_edge(e, pr) == rec.get("real_res", "") \
                and sorted(e["a"].get("fwd", [])) == sorted(rec.get("real_fwd") or []):
            return e["a"]["dev"]
    return None


def describe(rec, path):
    si = rec["step"]
    a = path["steps"][si]["a"]
    hist = " ; ".join(fmt_act(x["a"]) for x in path["steps"][:si + 1][-8:])
    return "%s in state %s: spec %s fwd=%s -> %s, real %s fwd=%s -> %s   [history: %s]" % (
        fmt_act(a), vf.canon(pre_state(path, si)), rec.get("spec_res"), rec.get("spec_fwd"), vf.canon(rec.get("spec_t")),
        rec.get("real_res"), rec.get("real_fwd"), vf.canon(rec.get("real_t")), hist)


def fmt_act(a):
    if a.get("act") == "Receive":
        return "Receive(%s from %s id=%s sig=%s ts=%s%s)" % (a["path"], a["from"], a["id"], a["sig"], a["ts"],
                                                            " loop" if a.get("loop") else "")
    if a.get("act") == "PeerConnected":
        return "PeerConnected(%s)" % a.get("p")
    if a.get("act") == "LocalIssue":
        return "LocalIssue(%s %s)" % (a.get("kind"), a.get("id"))
    return a.get("act", "?")


def judge(ctx, pid, level, inst, paths, recs, devrel, stats, pr=proj, cex=False, iname=""):
    """Turn the harness records of one replay into findings of property `pid` (cex: only the counterexample paths,
    judged first because their artefact is the complete failing history; otherwise only the other paths)."""
    for pi, rec in sorted(recs.items()):
        path = paths[pi]
        label = path["label"]
        if label.startswith("cex:") != cex:
            continue
        if cex:
            d = label[4:].split("#")[0]
            if rec["status"] == "ok":
                stats["cex_reproduced"].setdefault(d, 0)
                stats["cex_reproduced"][d] += 1
                if DEVINFO[d]["prop"] == pid:
                    hist = " ; ".join(fmt_act(x["a"]) + ("=>" + x["a"]["res"] if "res" in x["a"] else "")
                                      for x in path["steps"])
                    ctx.finding("SleepCmd:%s:%s" % (d, DEVINFO[d]["site"]),
                                "the real code (%s level) follows TLC's counterexample for %s to the violation of %s: %s"
                                % (level, d, DEVINFO[d]["inv"], hist), {"path": path, "level": level})
            continue
        if rec["status"] != "mismatch":
            continue
        if rec["step"] < 0:
            raise vf.Infra("%s replay: initial state of the real object differs from Init: %s" % (level, rec))
        si = rec["step"]
        step = path["steps"][si]
        if "alts" in step and vf.canon(rec["real_t"]) in [vf.canon(pr(t)) for t in step["alts"]] \
                and rec.get("real_res", "") == rec.get("spec_res", ""):
            stats["alts"] += 1          # another admissible outcome of a nondeterministic step
            if si < len(path["steps"]) - 1:
                stats["cut"].setdefault((iname, path.get("grp")), []).append(pi)
            continue
        s = pre_state(path, si)
        if not s["key"]:
            # nothing is claimed without a signing key: never a verdict (see run(): infrastructure error unless the
            # code also deviates in signed mode)
            stats["nokey"].append("%s replay: %s" % (level, describe(rec, path)))
            continue
        stats["mismatches"] += 1
        dev = classify(rec, path, devrel, pr)
        a = step["a"]
        if dev:
            d0 = dev.split("+")[0]
            owner = DEVINFO[d0]["prop"]
            if d0 == "DevQueuedPathUnverified":
                owner = "C29" if authentic(a, s, inst) else "C28"
            key = "SleepCmd:%s:%s" % (dev, DEVINFO[d0]["site"])
        else:
            # C28: a frame that is not authentic has an effect on the sleep state or on what is / will be forwarded
            # (the pending wake kept for new peers); a pending-wake forward that differs.  Everything else
            # (cache bookkeeping, handling of authentic commands) is C29's subject.
            effect = (rec.get("real_res", "").startswith("accept") or rec.get("real_fwd") or rec["real_t"]["st"] != s["st"]
                      or ("pend" in rec["real_t"] and rec["real_t"]["pend"] != step["t"]["pend"]))
            owner = "C28" if (a.get("act") == "PeerConnected" or
                              (a.get("act") == "Receive" and not authentic(a, s, inst) and effect)) else "C29"
            key = "SleepCmd:unexplained:%s:%s:%s" % (level, a.get("act"), rec.get("real_res"))
        stats["by_key"][key] = stats["by_key"].get(key, 0) + 1
        if owner == pid:
            ctx.finding(key, "%s replay: %s" % (level, describe(rec, path)),
                        {"level": level, "record": rec, "deviation": dev})


def real_paths(edges):
    """Single deliveries to an agent that keeps its own sleep callbacks (it really goes to sleep): from the initial
    state in signed mode, the first genuine id on the flooded and the queued sleep path with every signature class."""
    out = []
    for e in map(strip, edges):
        a = e["a"]
        if is_init(e["s"]) and e["s"]["key"] and a.get("act") == "Receive" and a["path"] in ("sleep", "qsleep") \
                and a["from"] == "p1" and not a["loop"] and a["id"] == "a":
            out.append({"label": "real:%s:%s" % (a["path"], a["sig"]), "init": e["s"], "steps": [{"a": a, "t": e["t"]}]})
    return sorted(out, key=lambda p: p["label"])


# --------------------------------------------------------------------------------------------- whole pipeline
def run(ctx, pid):
    insts = instances(ctx)
    m = model(ctx, insts)
    stats = {"alts": 0, "mismatches": 0, "by_key": {}, "cex_reproduced": {}, "nokey": [], "cut": {}}
    plans = {}
    for name in REPLAYED:
        paths, nnodes, nedges, nnondet = cover(m["rel"][name].edges)
        reps = 8
        for d, info in DEVINFO.items():
            if info["inst"] == name and info.get("replay", True):
                for k in range(reps if "Cleanup" in [s["a"]["act"] for s in m["cex"][d]["steps"]] else 2):
                    c = dict(m["cex"][d])
                    c["label"] = "cex:%s#%d" % (d, k)
                    paths.append(c)
        if name == "agent":
            paths.extend(real_paths(m["rel"][name].edges))
        plans[name] = dict(paths=paths, nodes=nnodes, edges=nedges, nondet=nnondet)
    par = Par()
    par.go("flood", replay_flood, ctx, "flood", insts["flood"], plans["flood"]["paths"])
    par.go("aux", replay_flood, ctx, "aux", insts["aux"], plans["aux"]["paths"])
    par.go("agent", replay_agent, ctx, "agent", insts["agent"], plans["agent"]["paths"])
    par.go("trace", traces, ctx, pid, stats)
    par.go("conc", concurrent, ctx)
    out = par.join()
    steps = 0
    for cex in (True, False):
        for name in REPLAYED:
            recs = out[name][0]
            steps += 0 if cex else out[name][1]
            judge(ctx, pid, "agent" if name == "agent" else "flooder", insts[name], plans[name]["paths"], recs,
                  m["rel"][name], stats, proj_agent if name == "agent" else proj, cex, name)
    # replicated paths (a nondeterministic step inside): lost if every replica took another branch
    lost = {True: 0, False: 0}
    for (n, grp), cut in stats["cut"].items():
        group = [p for p in plans.get(n, {"paths": []})["paths"] if grp is not None and p.get("grp") == grp]
        if group and len(cut) >= len(group):
            lost[bool(group[0]["init"]["key"])] += 1
    stats["nondet_lost"] = lost[True]            # signed mode (the claimed part)
    stats["nondet_lost_unsigned"] = lost[False]  # unsigned mode: nothing is claimed there
    del stats["cut"]
    if out["trace"].get("finding"):
        ctx.finding(*out["trace"]["finding"])
    conc = out["conc"]
    stats["concurrent"] = {k: conc[k] for k in ("commands", "deliveries", "cleanups", "overlapped", "twice", "fresh_rejected",
                                                "cache_entries", "wall_ms")}
    if conc["twice"]:
        d = "DevCleanupLosesConcurrentInsert"
        stats["by_key"]["SleepCmd:%s:%s" % (d, DEVINFO[d]["site"])] = conc["twice"]
        if pid == "C29":
            ctx.finding("SleepCmd:%s:%s" % (d, DEVINFO[d]["site"]),
                        "%d of %d validly signed commands delivered while cleanup() was running concurrently were acted on "
                        "TWICE (accepted, replayed at once, accepted again); first case: %s" % (
                            conc["twice"], conc["commands"], json.dumps(conc["cases"][0])), {"cases": conc["cases"][:10]})
    if conc["fresh_rejected"]:
        stats["by_key"]["SleepCmd:concurrent:fresh-command-refused"] = conc["fresh_rejected"]
        if pid == "C29":
            ctx.finding("SleepCmd:concurrent:fresh-command-refused",
                        "%d fresh validly signed commands were refused while cleanup() was running concurrently; first: %s"
                        % (conc["fresh_rejected"], json.dumps(conc["rejected_cases"][0])), {"cases": conc["rejected_cases"][:10]})
    if stats["nokey"] and not stats["by_key"] and not stats["cex_reproduced"]:
        raise vf.Infra("the model does not describe the code in unsigned mode (%d replay mismatches, no verdict possible): %s"
                       % (len(stats["nokey"]), stats["nokey"][0]))
    return insts, m, plans, stats, steps, out["trace"]


TEXT = {
    "C28": "only authentic commands (valid signature, timestamp inside the window) change the sleep state or are forwarded",
    "C29": "every valid command is acted on at most once; forged frames and cache maintenance never change that",
}


def check(ctx, pid):
    insts, m, plans, stats, steps, tr = run(ctx, pid)
    npaths = sum(len(p["paths"]) for p in plans.values()) + tr["summary"]["traces"]
    ti = tr["inst"]
    states = sum(m["ideal"][n].distinct for n in insts)
    rins = {n: insts[n] for n in REPLAYED}
    edges = sum(p["edges"] for p in plans.values())
    sample = plans["flood"]["paths"][len(plans["flood"]["paths"]) // 3]
    asample = plans["agent"]["paths"][0]
    ctx.evidence(
        "model_checking",
        assumptions=[
            "Ed25519 is unforgeable: forged frames are zero signatures, random bytes, signatures of another key or genuine "
            "signatures transplanted onto other bytes",
            "bounded model: " + "; ".join("%s: clock 0..%d, W=%d, TTL=%d, Cap=%d, genuine %s, forged ids %s, key modes %s, "
                                          "sleep modes %s, paths %s"
                                          % (n, i["maxclock"], i["w"], i["ttl"], i["cap"], i["genuine"], i["forged"],
                                             i["keymodes"], i.get("sleepmodes", [True]), i["paths"]) for n, i in insts.items()),
            "concurrency of command handling with cleanup() is model-checked on the split-cleanup instance and sampled on "
            "the real Flooder by the Go scheduler (concurrent driver), not enumerated",
            "one model clock unit = VERIF_SLEEPCMD_UNIT_MS (default 3000 ms) of real time on the Flooder, window / TTL "
            "configured with half a unit of slack; window boundaries are not probed",
            "whole-agent replay: one clock value (default 5 min window/TTL of the agent's Flooder), the Flooder's cache is "
            "observed by its size only, sleep-manager callbacks replaced by counters except in the 'real' paths",
            "the agent's clock is assumed not to jump",
        ],
        states=states, transitions=edges, traces_validated_against_impl=npaths, exhaustive=(stats["nondet_lost"] == 0),
        paths_lost_to_nondeterministic_eviction=stats["nondet_lost"],
        unsigned_mode_paths_lost_to_nondeterministic_eviction=stats["nondet_lost_unsigned"],
        exhaustive_note="exhaustive refers to signed mode (the claimed part): every transition of the bounded relation was "
                        "executed on the real code. In unsigned mode the size limit evicts random entries (map order); "
                        "paths behind such a step are tried 3 times and counted as lost when every try took another branch",
        replayed_steps=steps, replayed_paths={n: len(p["paths"]) for n, p in plans.items()},
        model={n: {"generated": m["ideal"][n].generated, "distinct": m["ideal"][n].distinct, "edges": plans[n]["edges"],
                   "nodes": plans[n]["nodes"], "nondeterministic_steps": plans[n]["nondet"]} for n in rins},
        split_cleanup_model={"generated": m["ideal"]["conc"].generated, "distinct": m["ideal"]["conc"].distinct,
                             "constants": "clock 0..%d, Cap=%d, genuine %s, cleanup() as CleanupScan/CleanupSwap" % (
                                 insts["conc"]["maxclock"], insts["conc"]["cap"], insts["conc"]["genuine"])},
        concurrent_driver=stats["concurrent"],
        action_coverage={n: m["rel"][n].classes for n in rins},
        deviations_caught=m["caught"], counterexamples_reproduced_on_code=stats["cex_reproduced"],
        trace_validation=dict(stats["trace"], constants="clock 0..%d, Cap=%d, genuine %s, forged %s, peers %s" % (
            ti["maxclock"], ti["cap"], ti["genuine"], ti["forged"], ti["peers"])),
        replay_mismatches=stats["mismatches"], unsigned_mode_mismatches=len(stats["nokey"]), mismatch_classes=stats["by_key"], nondeterministic_alternatives=stats["alts"],
        property=TEXT[pid],
        samples=[{"flooder_path": [fmt_act(x["a"]) + ("=>" + x["a"]["res"] if "res" in x["a"] else "")
                                   for x in sample["steps"]][:16]},
                 {"agent_path": [fmt_act(x["a"]) + ("=>" + x["a"]["res"] if "res" in x["a"] else "")
                                 for x in asample["steps"]][:12]},
                 {"counterexample_" + d: [fmt_act(x["a"]) for x in c["steps"]] for d, c in m["cex"].items()},
                 {"recorded_execution": [fmt_ev(e) for e in tr["events"][1:14]]}])
