# Codec.tla <-> internal/protocol wire codecs   (C05)
import os, json
import vf, _partlc

ALL_TYPES = ["Frame", "PeerHello", "StreamOpen", "StreamOpenAck", "StreamOpenErr", "StreamReset", "Keepalive",
             "RouteAdvertise", "RouteWithdraw", "NodeInfoAdvertise", "ControlRequest", "ControlResponse",
             "UDPOpen", "UDPOpenAck", "UDPOpenErr", "UDPDatagram", "UDPClose",
             "ICMPOpen", "ICMPOpenAck", "ICMPOpenErr", "ICMPEcho", "ICMPClose",
             "SleepCommand", "WakeCommand", "QueuedState"]
ACKS = ["StreamOpenAck", "UDPOpenAck"]
DEVS = {  # deviation -> (types that exhibit it, invariants that may catch it first)
    "DevQueuedOffset33": (["QueuedState"], ("RoundTrip",)),
    "DevAckMinLen44": (ACKS, ("RoundTrip",)),
    "DevPreallocFromCount": (["QueuedState"], ("AllocProportional",)),
    "DevNoLegacyTail": (["NodeInfoAdvertise"], ("RoundTrip",)),
    "DevStreamNoMaxCheck": (["Frame"], ("StreamAgrees", "StreamAllocBounded")),
}
ELEM_SIZE = [120, 72, 288]   # Codec.tla ElemSize
HFILES = ["common/common_test.go.tmpl", "protocol/codec_test.go"]


def cfg(types, dev=(), emit=True, wide=False, invs="RoundTripEmit AllocEmit StreamEmit"):
    return ("CONSTANTS Types = {%s} Dev = {%s} Emit = %s Wide = %s\nINIT Init\nNEXT Next\nINVARIANTS %s\n" % (
        ",".join('"%s"' % t for t in types), ",".join('"%s"' % d for d in dev),
        "TRUE" if emit else "FALSE", "TRUE" if wide else "FALSE", invs))


def vecs_of(res):
    return [o for t, o in res.prints if t == "VEC"], [o for t, o in res.prints if t == "HOSTILE"]


def streams_of(res):
    return [o for t, o in res.prints if t == "STREAM"]


def model(ctx):
    """Ideal grammar round-trips on every enumerated shape; every deviation is caught."""
    wide = not ctx.quick()
    jobs = [{"name": "ideal", "cfg": cfg(ALL_TYPES, wide=wide), "workers": 4, "heap": "8g"}]
    jobs += [{"name": d, "cfg": cfg(types, dev=[d], emit=False,
                                    invs="RoundTrip AllocProportional StreamAgrees StreamAllocBounded")}
             for d, (types, inv) in DEVS.items()]
    res = _partlc.run(ctx, "Codec", jobs)
    ideal = res["ideal"]
    if ideal.violated:
        raise vf.Infra("ideal Codec spec violates %s (specification error)" % ideal.violated)
    vecs, hostile = vecs_of(ideal)
    streams = streams_of(ideal)
    if not vecs or not hostile or not streams:
        raise vf.Infra("TLC emitted no vectors")
    bad = [v for v in vecs if v["parse"] != "same"]
    if bad:
        raise vf.Infra("ideal Codec spec: parse outcome %s on %s" % (bad[0]["parse"], bad[0]["ty"]))
    caught = {}
    for d, (types, inv) in DEVS.items():
        caught[d] = res[d].violated
        if res[d].violated not in inv:
            raise vf.Infra("deviation %s not detected by %s (got %s): vacuous model" % (d, inv, res[d].violated))
    return ideal, vecs, hostile, streams, caught


_devcache = {}


def dev_outcomes(ctx, dev):
    """Outcome of the deviating decoder for every shape of the affected types: {(ty, canon(sk)): outcome}."""
    if dev not in _devcache:
        types = DEVS[dev][0]
        r = ctx.tlc("Codec", "MCdevemit.cfg", name="codec-emit-" + dev, timeout=3000,
                    files={"MCdevemit.cfg": cfg(types, dev=[dev], wide=not ctx.quick(), invs="EmitVec")})
        v, h = vecs_of(r)
        _devcache[dev] = ({(x["ty"], vf.canon(x["sk"])): x["parse"] for x in v},
                          {vf.canon(x["h"]): x for x in h})
    return _devcache[dev]


def harness(ctx, vecs, hostile, streams):
    inp = os.path.join(ctx.work, "codec_vecs.json")
    if os.environ.get("VERIF_SELFTEST_CORRUPT"):
        # binding self-test: one structural number of one spec layout is wrong -> the run must end as "binding broken"
        import copy
        vecs = copy.deepcopy(vecs)
        run = [r for r in vecs[len(vecs) // 2]["runs"] if r["c"] == "n"][0]
        run["v"] += 1
        ctx.log("SELFTEST: corrupted a length cell of the spec layout of shape %d" % (len(vecs) // 2))
    vf.write_json(inp, {"vecs": vecs, "hostile": hostile, "streams": streams})
    q = ctx.quick()
    env = {"ZZV_IN": inp, "ZZV_MUT": 100 if q else 1500, "ZZV_RAND": 2000 if q else 40000,
           "ZZV_PREFIX_FULL": 1200 if q else 40000, "ZZV_PREFIX_SAMPLE": 100 if q else 1000,
           "ZZV_PREFIX_CELLS": 150 if q else 3000}
    r = ctx.gotest("protocol", HFILES, "^TestZZVCodec$", env=env, timeout=3000, allow_fail=True)
    summ = r.of("summary")
    if not summ:
        if r.of("viol"):
            # the process died (e.g. out of memory) after violations of the real code had been recorded
            ctx.log("note: codec harness died after %d violation records:\n%s" % (len(r.of("viol")), r.out[-800:]))
            return None, r.of("viol")
        raise vf.Infra("codec harness produced no summary:\n" + r.out[-3000:])
    summ = summ[0]
    if summ.get("stream_bind_errors") and not r.of("viol"):
        raise vf.Infra("binding broken: the frame decode paths differ from the Codec.tla transcription on %d hostile "
                       "headers (first: %s)" % (summ["stream_bind_errors"], r.of("streambind")[:1]))
    sizes = r.of("sizes")
    if not sizes or sizes[0]["elem"] != ELEM_SIZE:
        raise vf.Infra("Codec.tla ElemSize %s differs from unsafe.Sizeof %s (update the spec constant)" % (
            ELEM_SIZE, sizes and sizes[0]["elem"]))
    viols = r.of("viol")
    binds = r.of("bind")
    if (summ["bind_errors"] or binds) and not viols:
        # the real encoder and decoder agree with each other but not with the grammar: the spec does not describe
        # this code, no verdict possible
        b = binds[0] if binds else {}
        raise vf.Infra("binding broken: real encoding of %s differs from the Codec.tla layout (%d shapes; first: spec "
                       "len %s real len %s, first differing byte %s, skeleton %s)" % (
                           b.get("ty"), summ["bind_errors"], b.get("speclen"), b.get("reallen"), b.get("firstdiff"),
                           vf.canon(b.get("sk"))))
    for b in binds:
        ctx.log("note: real encoding of %s differs from the spec layout at byte %s (round trip %s)" % (
            b.get("ty"), b.get("firstdiff"), "ok" if b.get("roundtrip_ok") else "FAILS"))
    if summ["shapes"] != len(vecs):
        raise vf.Infra("harness evaluated %d of %d shapes" % (summ["shapes"], len(vecs)))
    return summ, viols


def classify(ctx, v, vecs):
    """finding key + text for one violation record of the harness"""
    cls, ty, what = v["cls"], v["ty"], v["what"]
    dev = None
    if cls == "roundtrip" and ty == "QueuedState" and "sk" in v:
        pred = dev_outcomes(ctx, "DevQueuedOffset33")[0].get((ty, vf.canon(v["sk"])))
        real = v.get("outcome")
        if pred and pred != "same" and v.get("sleep_same") and (pred == real or (
                pred == "wake-lost-or-garbled" and real in ("wake-lost", "wake-garbled"))):
            dev = "DevQueuedOffset33"
    elif cls == "roundtrip" and ty in ACKS and "sk" in v:
        pred = dev_outcomes(ctx, "DevAckMinLen44")[0].get((ty, vf.canon(v["sk"])))
        if pred == "error" and v.get("outcome") == "error":
            dev = "DevAckMinLen44"
    elif cls == "reencode" and ty in ACKS and "too short" in what:
        dev = "DevAckMinLen44"
    elif cls == "stream" and v.get("path") == "FrameReader.Read" and v.get("claimed_length", 0) > 16384 and (
            "allocation" in what or "disagree" in what):
        dev = "DevStreamNoMaxCheck"
    elif cls == "alloc" and ty == "QueuedState":
        # explained by pre-allocation from a count field iff the input claims more entries than it can hold
        dev = "DevPreallocFromCount"
    if dev:
        site = {"DevQueuedOffset33": "DecodeQueuedState", "DevPreallocFromCount": "DecodeQueuedState",
                "DevAckMinLen44": "Decode" + ty, "DevStreamNoMaxCheck": "FrameReader.Read"}[dev]
        key = "Codec:%s:%s" % (dev, site)
    else:
        short = "".join(ch if ch.isalnum() else "-" for ch in what.split(":")[0])[:48]
        key = "Codec:unexplained:%s:%s:%s" % (cls, ty, short)
    text = "%s %s: %s (input %d bytes %s%s)" % (
        ty, cls, what, v.get("len", 0), v.get("input", ""),
        (", skeleton " + vf.canon(v["sk"])) if "sk" in v else "")
    if v.get("outcome"):
        text += " outcome=" + str(v["outcome"])
    if v.get("alloc"):
        text += " allocated=%s bound=%s" % (v["alloc"], v.get("bound"))
    if "claimed_length" in v:
        text += " header claims %s payload bytes" % v["claimed_length"]
    return key, text
