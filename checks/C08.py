# C08 - CIDR route lookup is longest-prefix match with lowest-metric tie-break
#
# Interpretation (permissive side):
#  * "longest prefix" is compared among the stored routes that contain the address; IPv4 and IPv6 routes never
#    contain an address of the other family, and an IPv4 address written as IPv4-mapped IPv6 (::ffff:a.b.c.d, what
#    net.ParseIP returns for dotted-quad text) IS that IPv4 address.
#  * on equal prefix and equal metric every such route is acceptable (the oracle returns the set).
#  * stored networks are canonical prefixes as the code base itself produces them (net.ParseCIDR / the flooder's
#    decoder: 4-byte IPv4 networks, 16-byte IPv6 networks outside ::ffff:0:0/96, host bits zero).  Non-canonical
#    networks injected by a misbehaving peer are outside the statement's "IPv4 and IPv6 prefixes".
#  * the verdict compares the real answer with the oracle of the STATEMENT (RouteTable!CidrOracle) evaluated on a
#    table whose full content was just compared with the real table; table maintenance itself is C10's subject.
#    In particular a stale route that a faulty cleanup leaves behind is still a STORED route, so returning it does not
#    break this statement: whether cleanup removes exactly the stale foreign routes is decided by C10.  When this
#    check sees the table content diverge from the modelled maintenance it logs a note ("C10's domain") and gives
#    no verdict on it.
import vf, _routetable as R


def run(ctx):
    cfgs = ["cidr-lk", "cidr-loc"] if ctx.quick() else ["cidr-lkT", "cidr-loc", "cidr-mt"]
    results, caught = R.model_and_sensitivity(ctx, "C08", cfgs)
    summ, mism, lkmism, tot = R.replay(ctx, results)
    foreign = R.report_replay(ctx, "C08", mism, lkmism)
    ntr, nops, chunks = (40, 250) + (1,) if ctx.quick() else (20, 1000) + (8,)
    tsum, v = R.traces(ctx, "C08", ["cidr"], ntr, nops, "c08trace", chunks)
    foreign += R.report_trace(ctx, "C08", v)
    ctx.evidence("model_checking",
                 assumptions=["stored networks are canonical IPv4 / non-mapped IPv6 prefixes (as net.ParseCIDR and the "
                              "flooder's decoder build them); IPv4-mapped addresses are IPv4 addresses",
                              "bounded model: abstract prefixes of <= 2 symbols in two families, 2 origins, metrics 1..2 "
                              "plus local metric 0, <= 3 entries; every symbol is expanded to a random block of real "
                              "address bits per walk; traces use 3 symbols, 9 prefixes, 7 origins",
                              "single-threaded histories (the tables serialise all operations under one lock)",
                              "maintenance (incl. exactness of stale-route cleanup) is decided by C10; divergences of the "
                              "table content are only logged here (findings_of_sibling_properties_seen)"],
                 states=sum(r.distinct for r in results.values()), transitions=tot["edges"],
                 traces_validated_against_impl=sum(s["walks"] for s in summ.values()) + tsum["validated_traces"],
                 exhaustive=all(s["uncovered"] == 0 for s in summ.values()), cfgs={n: {"states": r.distinct, "transitions": r.generated - 1} for n, r in results.items()},
                 replay={n: {k: s[k] for k in ("groups", "uncovered", "edges", "edges_exhibited", "steps", "walks",
                                                "mismatches", "lkmismatches", "lookups")} for n, s in summ.items()},
                 lookups_checked_in_replay=sum(s["lookups"] for s in summ.values()),
                 trace_events=tsum["events"], trace_events_matched=tsum["highwater_total"], trace_event_counts=tsum["counts"],
                 trace_lookup_hits=tsum["lookup_hits"], trace_lookup_misses=tsum["lookup_misses"],
                 trace_lookup_multi_candidate=tsum["lookup_multi_candidate"],
                 deviations_caught=caught, findings_of_sibling_properties_seen=foreign,
                 samples=[{"replay_walk": next(iter(summ.values()))["sample"]}, {"trace_events": tsum["sample"]}])
