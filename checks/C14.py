# C14 - Origin re-announcements always refresh every receiver
#
# Interpretation: "renews that agent's copy" = after the announcement has been delivered everywhere (quiescence)
# every agent connected to the origin holds the origin's presence route and every announced route with the
# sequence number of that announcement and a LastUpdate later than any earlier ageing instant (LastUpdate is
# compared with a recorded instant, never with wall-clock durations).  For the presence table, which keeps one
# entry per next hop, the entry through at least one next hop must be renewed.  Histories: any interleaving of
# announcements with peer connects (each followed by the table replays of both ends) before the announcement.
import vf, _flood as F

DEVS = ["DevReplayUsesOwnSequence", "DevSeenBlocksResync"]


def cfgs(ctx):
    l2, l3 = F.L(("a", "b")), F.L(("a", "b"), ("b", "c"))
    out = [
        # c joins b; b relays a's routes to c; a announces again (b's counter is ahead of a's: b has exit routes /
        # announces itself)
        F.base("c14-relay3", F.A3, l3, initups=[l2], exits=[["b"]], announcers=["a"], maxann=2, conn=1),
        # ageing and stale-route cleanup between the announcements
        F.base("c14-age3", F.A3, l3, initups=[l2], exits=[["a"]], announcers=["a"], maxann=2, conn=1, age=1),
        # a link is lost and comes back between / after the announcements: the replay (origin's sequence) must restore
        # what the disconnect removed, and later announcements must still renew it
        F.base("c14-rejoin3", F.A3, l3, initups=[l3], exits=[["a"]], announcers=["a"], maxann=2, conn=1, disc=1),
    ]
    if not ctx.quick():
        # presence-only agents: b's counter gets ahead of a's through b's own announcements
        out.append(F.base("c14-relay3p", F.A3, l3, initups=[l2], exits=[[]], routeids=[], announcers=["a", "b"], maxann=2, conn=1))
        t3 = F.L(("a", "b"), ("b", "c"), ("a", "c"))
        out.append(F.base("c14-tri3", F.A3, t3, initups=[l2], exits=[["b"]], announcers=["a"], maxann=2, conn=2, replay=False))
        l4 = F.L(("a", "b"), ("b", "c"), ("c", "d"))
        out.append(F.base("c14-relay4", F.A4, l4, initups=[l4[:2]], exits=[["b"]], announcers=["a"], maxann=2, conn=1))
        out.append(F.base("c14-relay4b", F.A4, l4, initups=[l4[:2]], exits=[["b"]], announcers=["a", "b"], maxann=2, conn=1, replay=False))
    return out


def run(ctx):
    runs = F.model(ctx, cfgs(ctx))
    caught = F.sensitivity(ctx, DEVS)
    rep = F.replay(ctx, runs)
    ntr, nops = (25, 50) if ctx.quick() else (1200, 100)
    tr = F.traces(ctx, "TestZZVFloodTrace", {"ZZV_TRACES": ntr, "ZZV_OPS": nops}, "c14trace")
    F.report(ctx, "C14", rep, [tr])
    st, trn = F.coverage(runs)
    ctx.evidence("model_checking",
                 assumptions=["bounded model: 3 (thorough: 4) agents, one or two peer connects with table replays of both ends, two "
                              "announcements per announcing agent, one ageing step",
                              "refresh is observed as sequence number + LastUpdate relative to a recorded instant"],
                 states=st, transitions=trn, traces_validated_against_impl=rep["paths"] + tr["summary"]["traces"],
                 exhaustive=True, replayed_paths=rep["paths"], replayed_steps=rep["steps"], replay_edges=rep["edges"],
                 replay_forks=rep["forks"], replay_mismatches=len(rep["mismatches"]),
                 trace_events=tr["summary"]["events"], trace_highwater=tr["v"]["hw"], trace_accepted=tr["v"]["accepted"],
                 deviations_caught=caught, samples=rep["samples"] + [{"random_schedule": s} for s in tr["summary"]["sample"][:2]])
