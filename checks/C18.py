# C18 - Half-close and close behave per protocol for every frame sequence
#
# Interpretation (permissive where the statement leaves a choice):
#  * "data that arrives before or together with the remote end-of-write signal": the chunks of all data frames whose
#    handling began before, or that carry, the first FIN-flagged frame of the stream.  Data a peer sends AFTER its
#    own FIN is not constrained.  "Delivered before end-of-stream" is required of an end-of-stream returned on a live
#    stream; an EOF caused by a local close / reset (teardown) may discard undelivered data.
#  * "writes are refused": the guard every writer uses (Stream.CanWrite, first statement of agent.meshConn.Write) says
#    no once CloseWrite has returned; the stream package itself has no Write method.
#  * documented transitions: Architecture.md 7.1 (Opening->Open, Open->HalfClosed{Local,Remote}, HalfClosed*->Closed)
#    plus teardown (close/reset) from any state to Closed.
#  * the Stream object is handed out only after the open completed (Manager.OpenStream does not expose it), so
#    Read/Write/CloseWrite are not issued on a stream that is still Opening.
#  * "tears down only the addressed stream" includes the PENDING OPENS of other streams: a close / reset / data frame
#    for an id that is not established (also one numerically equal to another stream's request id) changes nothing.
#  * exit side (ExitConn.tla, checks/_exitconn.py): a FIN-flagged frame's payload reaches the destination before the
#    destination socket is half-closed; a chunk (even an empty one) after the FIN cannot be written and closes the
#    connection (as the code does); the handler closing the connection when the DESTINATION half-closes is modelled as
#    the code does it and not judged.
# A replay mismatch is a transition of the real code that the specification does not have; it is reported as a
# violation, named after the deviation (relation with Dev = {d}) that explains it, or "unexplained".
import vf, _replay as R, _stream as S, _exitconn as E


def describe(mm):
    a = mm.get("a", {})
    return ("stream.Manager %s(%s%s) after [%s]: specification -> result %s%s, state %s ; real code -> result %s%s, state %s" % (
        a.get("act"), a.get("s"),
        (" data=%s fin=%s" % (a.get("hd"), a.get("fin"))) if a.get("act") == "FrameBegin" else "",
        " ".join("%s(%s)" % (x.get("act"), x.get("s", "")) for x in mm.get("prefix", [])[:-1]),
        mm.get("spec_res"), (" chunk %s" % mm.get("spec_chunk")) if mm.get("spec_chunk") else "",
        vf.canon(mm.get("spec_proj")), mm.get("real_res"),
        (" chunk %s" % mm.get("real_chunk")) if mm.get("real_chunk") else "", vf.canon(mm.get("real_t"))))


def run(ctx):
    c, ideal, caught, exit_res = S.model(ctx, E.jobs(ctx))
    binpath = S.build(ctx)
    doc, npaths, nnodes, nedges, nsteps = R.compact_paths(ideal.edges, S.is_init)
    ctx.log("path cover: %d paths, %d steps, %d states, %d transitions" % (npaths, nsteps, nnodes, nedges))
    nproc = 4 if ctx.quick() else 8
    summ, mism = S.replay(ctx, binpath, doc, "ideal", nproc=nproc)
    if R.total(summ, "steps") < nsteps and not mism:
        raise vf.Infra("replay executed %d of %d steps without reporting a mismatch" % (R.total(summ, "steps"), nsteps))
    explained, reproduced = {}, {}
    if mism:
        devix = S.dev_relations(ctx, c)
        ideal_ix = R.index_relation(ideal.edges, S.base_act)
        seen = set()
        for mm in mism:
            devs = R.classify(mm, devix, S.base_act, S.proj, S.same_result, ideal_ix) if mm.get("step", -1) >= 0 else []
            dev = devs[0] if devs else None
            a = mm.get("a", {})
            cls = dev or "unexplained:%s:%s" % (a.get("act"), mm.get("real_res"))
            explained[cls] = explained.get(cls, 0) + 1
            if cls in seen:
                continue
            seen.add(cls)
            art = dict(mm)
            if dev:
                # confirmation on the real code: the behaviour TLC finds for Dev = {dev} that violates the property
                # is replayed with the deviation's own expected states; if the code follows it to the end, the
                # property violation itself (lost chunk / foreign teardown / accepted write / undocumented edge) is
                # reproduced, not only a deviating step
                cex = ctx.tlc(S.MODULE, "MCcex.cfg", expect_violation=True, workers=1, files={
                    "MCcex.cfg": R.cfg_text(c, dev=[dev], emit=False, invs=S.INVS, props=S.PROPS)})
                if cex.trace and "counterexample" in cex.trace:
                    cdoc = S.cex_doc(cex.trace)
                    s2, m2 = S.replay(ctx, binpath, cdoc, "cex" + dev, nproc=1)
                    reproduced[dev] = not m2
                    art["counterexample_of_deviation"] = {"violates": cex.violated, "reproduced_on_real_code": not m2,
                                                          "schedule": [s["a"] for s in cdoc["paths"][0]["steps"]]}
                    ctx.log("counterexample of %s (%s, %d steps) on the real code: %s" % (
                        dev, cex.violated, len(cdoc["paths"][0]["steps"]), "REPRODUCED" if not m2 else "not reproduced"))
            what = describe(mm)
            if dev and reproduced.get(dev):
                what = "%s reproduced on the real code (schedule %s); first deviating step: %s" % (
                    S.DEV_CAUGHT_BY[dev] + " violated:", " ".join("%s(%s)" % (x.get("act"), x.get("s", "")) for x in
                                                                 art["counterexample_of_deviation"]["schedule"]), what)
            ctx.finding("Stream:%s" % cls, what, art)
    # ---- exit side: the same half-close rules on a real exit.Handler with loopback destinations (ExitConn.tla) -------
    exit_cov = E.run(ctx, explained, exit_res)
    sample = R.expand_path(doc, len(doc["paths"]) // 2)
    ctx.evidence("model_checking",
                 assumptions=["bounded model: 2 streams, %d frame(s) with every data/FIN combination for either stream, "
                              "%d Read calls per stream, unbounded Write/CloseWrite/Close/Reset calls" % (
                                  c["MaxFrames"], c["MaxReads"]),
                              "one frame-handler thread (one peer connection); Stream.PushData, HandleRemoteFinWrite, "
                              "Close are each one step (no scheduling point inside them)",
                              "Write = the CanWrite guard used by every writer of the repository (the stream package has no Write)",
                              "replay observes the read buffer by its length; contents are checked by the chunks the reads return",
                              "exit side (ExitConn.tla): 2 connections of one exit.Handler opened by real STREAM_OPENs to "
                              "loopback TCP destinations with real session keys; %d ingress frames (no payload / encrypted "
                              "empty chunk / data, with and without FIN), %d chunk(s) per destination; the handler closing the "
                              "whole connection when the destination half-closes is modelled as the code does it" % (
                                  exit_cov["constants"]["MaxFrames"], exit_cov["constants"]["MaxDest"])],
                 states=ideal.distinct + exit_cov["states"], transitions=nedges + exit_cov["transitions"],
                 traces_validated_against_impl=npaths + exit_cov["paths"], exhaustive=True,
                 stream_level={"states": ideal.distinct, "transitions": nedges, "paths": npaths}, exit_level=exit_cov,
                 replayed_paths=R.total(summ, "paths"), replayed_steps=R.total(summ, "steps"), replay_mismatches=len(mism),
                 blocked_reads_observed=R.total(summ, "blocked_reads"),
                 steps_with_handler_at_gate=R.total(summ, "steps_with_handler_at_gate"),
                 tlc_generated=ideal.generated, deviations_caught=caught, mismatches_by_class=explained,
                 counterexamples_reproduced_on_code=reproduced,
                 samples=[{"replay_path": [s["a"] for s in sample["steps"]][:16]}])
