# PeerReg.tla <-> internal/peer manager + agent disconnect cleanup on the controlled mesh (C32)
import os
import vf
from _ctlreg import par, trace_actions, path_cover as big_path_cover

INVS = "TypeOK AtMostOneRegistered ThreadsOnlyWhenKept RunningImpliesRegistered NoDeadGenerationItems ItemsFromKept"
PROPS = "RejectedDeliversNothing StaleTeardownHarmless"
DEVS = ["DevCleanupByIdentityOnStaleCallback", "DevTeardownDeregistersByIdentity", "DevRegisterReplaces", "DevRejectedStillReads",
        "DevKeepaliveDisconnectsByIdentity", "DevRegisterCheckThenAct", "DevSkipCleanupWhenSuperseded"]
# instance in which each deviation is checked (MaxLink, MaxAnn, MaxApi, MaxRelay, KaOf, MaxKa, SplitRegister, ApiOf)
DEVCFG = {d: (2, 0, 0, 1, ["a"], 1, False, []) for d in DEVS}
DEVCFG["DevRegisterCheckThenAct"] = (2, 0, 0, 0, [], 0, True, [])
DEVCFG["DevSkipCleanupWhenSuperseded"] = (2, 0, 1, 1, [], 0, False, ["a"])
SITE = {"DevCleanupByIdentityOnStaleCallback": "agent.handlePeerDisconnect",
        "DevTeardownDeregistersByIdentity": "peer.Manager.handleDisconnect",
        "DevRegisterReplaces": "peer.Manager.registerConnection",
        "DevRejectedStillReads": "peer.Manager.registerConnection",
        "DevKeepaliveDisconnectsByIdentity": "peer.Manager.keepaliveLoop",
        "DevRegisterCheckThenAct": "peer.Manager.registerConnection",
        "DevSkipCleanupWhenSuperseded": "peer.Manager.handleDisconnect"}
HFILES = ["common/common_test.go.tmpl", "agent/cmesh_test.go", "agent/ctlreg_await_test.go", "agent/peerreg_test.go"]
EXTRA = {"peer": ["peer/peerreg_export.go"]}


def cfg(maxlink, maxann, maxapi, maxrelay, kaof, maxka, split, apiof, dev=(), emit=False, invs=INVS, props=PROPS):
    return ("CONSTANTS MaxLink = %d MaxAnn = %d MaxApi = %d MaxRelay = %d KaOf = {%s} MaxKa = %d SplitRegister = %s "
            "ApiOf = {%s} Dev = {%s} Emit = %s\n"
            "INIT Init\nNEXT Next\nVIEW view\nACTION_CONSTRAINT EmitEdge\n%s%s" % (
                maxlink, maxann, maxapi, maxrelay, ",".join('"%s"' % a for a in kaof), maxka, "TRUE" if split else "FALSE",
                ",".join('"%s"' % a for a in apiof),
                ",".join('"%s"' % d for d in dev),
                "TRUE" if emit else "FALSE", ("INVARIANTS " + invs + "\n") if invs else "",
                ("PROPERTIES " + props + "\n") if props else ""))


def model(ctx):
    # (MaxLink, MaxAnn, MaxApi, MaxRelay, KaOf, MaxKa, SplitRegister, ApiOf)
    if ctx.quick():
        small = (2, 0, 0, 1, ["a"], 1, False, [])                 # every transition replayed: keepalive failures ...
        apiinst = (2, 0, 1, 1, [], 0, False, ["a"])               # ... and Manager.Disconnect (unregister without callback)
        bigs = [(2, 0, 0, 1, ["a", "b"], 1, True, []), (2, 0, 1, 1, ["a"], 1, False, ["a", "b"])]     # exhaustive check only
    else:
        small = (2, 1, 0, 1, ["a"], 1, False, [])
        apiinst = (2, 1, 1, 1, [], 0, False, ["a", "b"])
        bigs = [(2, 1, 1, 1, ["a", "b"], 2, True, ["a", "b"])]

    def ideal_job(bounds, name):
        def job(c):
            fn = "MC-%s.cfg" % name
            return c.tlc("PeerReg", fn, files={fn: cfg(*bounds, emit=True)}, name="PeerReg-" + name, workers=2 if ctx.quick() else 4)
        return job

    def dev_job(d):
        def job(c):
            fn = "MCdev-%s.cfg" % d
            return c.tlc("PeerReg", fn, files={fn: cfg(*DEVCFG[d], dev=[d])}, expect_violation=True,
                         name="PeerReg-" + d, workers=2)
        return job
    res = par(ctx, [ideal_job(small, "replayed"), ideal_job(apiinst, "replayed-api")] + [dev_job(d) for d in DEVS])
    ideals = res[:2]
    for r in ideals:
        if r.violated:
            raise vf.Infra("ideal PeerReg spec violates %s (specification error)" % r.violated)
    caught, seeds = {}, []
    for d, r in zip(DEVS, res[2:]):
        if not r.violated:
            raise vf.Infra("deviation %s not detected (vacuous model)" % d)
        caught[d] = r.violated
        seeds.append({"name": d, "steps": trace_actions(r)})
    return {"small": small, "apiinst": apiinst, "bigs": bigs, "ideals": ideals, "caught": caught, "seeds": seeds}


def replay(ctx, mdl, shards=None):
    paths, nnodes, nedges = [], 0, 0
    for r in mdl["ideals"]:
        cover = vf.path_cover if len(r.edges) <= 20000 else big_path_cover
        p, n, e = cover(r.edges)
        paths, nnodes, nedges = paths + p, nnodes + n, nedges + e
    ctx.rng.shuffle(paths)
    if os.environ.get("VERIF_CORRUPT"):
        # binding self-test: corrupt ONE expected state (the route survives... is claimed lost after a stale teardown /
        # a kept registration is claimed rejected); the run must not end with exit 0
        done = False
        for p in paths:
            for st in p["steps"]:
                if not done and st["a"]["act"] in ("AcceptHello", "DeliverAck") and st["a"]["kept"]:
                    st["t"]["reg"][st["a"]["x"]] = []
                    done = True
        ctx.log("VERIF_CORRUPT: one expected registration corrupted:", done)
    inp = os.path.join(ctx.work, "peerreg_paths.json")
    vf.write_json(inp, {"paths": paths, "scenarios": mdl["seeds"]})
    if shards is None:
        shards = 4 if ctx.quick() else 8

    lock_rounds, free_rounds = (12, 150) if ctx.quick() else (60, 3000)

    def shard_job(i):
        def job(c):
            run = "^TestZZVRegReplay$" if i else "^TestZZVReg(Replay|Race)$"      # shard 0 also runs the race driver
            return c.gotest("agent", HFILES, run, extra_pkgs=EXTRA, timeout=2400,
                            env={"ZZV_IN": inp, "ZZV_SHARD": i, "ZZV_NSHARD": shards,
                                 "ZZV_RACE_LOCKSTEP": lock_rounds, "ZZV_RACE_FREE": free_rounds})
        return job

    def big_job(k, bounds):
        def job(c):
            fn = "MCbig%d.cfg" % k
            return c.tlc("PeerReg", fn, files={fn: cfg(*bounds)}, name="PeerReg-big%d" % k, timeout=2400,
                         workers=2 if ctx.quick() else 6)
        return job
    nb = len(mdl["bigs"])
    res = par(ctx, [big_job(k, b) for k, b in enumerate(mdl["bigs"])] + [shard_job(i) for i in range(shards)])
    for r_big in res[:nb]:
        if r_big.violated:
            raise vf.Infra("ideal PeerReg spec violates %s on the larger instance (specification error)" % r_big.violated)
    mdl["r_bigs"] = res[:nb]
    recs, summ = [], []
    for r in res[nb:]:
        s = r.of("summary")
        if not s:
            raise vf.Infra("peerreg replay harness produced no summary:\n" + r.out[-3000:])
        summ.append(s[0])
        recs.extend(r.records)
    total = {k: sum(s[k] for s in summ) for k in ("paths", "steps", "viol", "diverged")}
    if total["paths"] != len(paths):
        raise vf.Infra("replayed %d of %d paths" % (total["paths"], len(paths)))
    race = [r for r in recs if r.get("k") == "race"]
    if not race:
        raise vf.Infra("race driver produced no record")
    if race[0]["aligned"] == 0:
        raise vf.Infra("race driver: in none of the %d lockstep rounds both registrations queued up at the manager mutex"
                       % race[0]["lockstep"])
    return {"paths": paths, "nodes": nnodes, "edges": nedges, "total": total, "race": race[0],
            "mismatches": [r for r in recs if r.get("k") == "mismatch"],
            "scenarios": [r for r in recs if r.get("k") == "scenario"]}


def explain(mm):
    """Which deviation of PeerReg.tla does an observed violation correspond to?"""
    a = mm.get("a", {})
    fields = mm.get("fields") or []
    oracle = " ".join(mm.get("oracle") or [])
    if "dead generation" in oracle:
        return "DevSkipCleanupWhenSuperseded"
    if "dead frames" in oracle:
        return "DevRejectedStillReads"
    if "duplicate:" in oracle:
        return "DevRegisterReplaces"
    if "live connection that is not the registered one" in oracle:
        return "DevRegisterCheckThenAct"
    if "stale teardown" in oracle:
        if "closed the live" in oracle or (a.get("act") == "KaFail" and "registration" in oracle):
            return "DevKeepaliveDisconnectsByIdentity"
        return "DevTeardownDeregistersByIdentity" if "registration" in oracle else "DevCleanupByIdentityOnStaleCallback"
    if a.get("act") in ("KaFail", "ReadTeardown"):
        return "DevTeardownDeregistersByIdentity" if any(f.startswith("reg.") for f in fields) else "DevCleanupByIdentityOnStaleCallback"
    if a.get("act") in ("AcceptHello", "DeliverAck"):
        return "DevRegisterReplaces"
    if any(f.startswith("proc.") for f in fields):
        return "DevRejectedStillReads"
    return None


def report(ctx, mdl, rp):
    n = 0
    for v in (rp["race"]["violations"] or [])[:3]:
        d = explain({"oracle": [v["what"]]}) or "DevRegisterCheckThenAct"
        ctx.finding("PeerReg:%s:%s" % (d, SITE[d]),
                    "concurrent registrations for one peer identity (%s round %s): %s" % (v["mode"], v["round"], v["what"]), v)
        n += 1
    for sc in rp["scenarios"]:
        if sc.get("oracle"):
            d = explain({"oracle": sc["oracle"]}) or sc["name"]
            ctx.finding("PeerReg:%s:%s" % (d, SITE[d]),
                        "schedule of TLC's counterexample for %s on real agents: %s" % (sc["name"], "; ".join(sc["oracle"])), sc)
            n += 1
    for mm in rp["mismatches"]:
        if mm.get("class") != "viol":
            continue
        d = explain(mm)
        a = mm.get("a", {})
        key = ("PeerReg:%s:%s" % (d, SITE[d])) if d else "PeerReg:unexplained:%s:%s" % (a.get("act"), ",".join(mm.get("fields") or []))
        what = "replay step %s(%s,%s)%s after %s: %s" % (
            a.get("act"), a.get("x"), a.get("l"), " [stale]" if a.get("stale") else "",
            " ".join("%s(%s%s)" % (p["act"], p.get("x", ""), p.get("l", "")) for p in (mm.get("prefix") or [])[:-1]),
            "; ".join(mm.get("oracle") or []) or ("state differs from the spec in %s" % mm.get("fields")))
        ctx.finding(key, what, mm)
        n += 1
    return n
