# FileAccess.tla / FsCore.tla <-> internal/filetransfer (tar.go, stream.go, browse.go)   (C26, C27)
import json, os
import vf

HFILES = ["common/common_test.go.tmpl", "filetransfer/fsworld_test.go"]
SITE_X = "UntarDirectory"


def tla_seq(seq):
    return "<<" + ", ".join('"%s"' % c.replace("\\", "\\\\") for c in seq) + ">>"


def tla_set(items):
    return "{" + ", ".join(items) + "}"


def tla_seqset(seqs):
    return tla_set(tla_seq(s) for s in seqs)


def mc_module(name, defs):
    body = "\n".join("%s == %s" % (k, v) for k, v in defs.items())
    return "---- MODULE %s ----\nEXTENDS FileAccess\n%s\n====\n" % (name, body)


# --------------------------------------------------------------------------- part X (C27)
X_UNUSED = ('Trees = "none" Slots = {} LinkTargets = {} MaxLinks = 0 MaxNodes = 0 Patterns = {} Requests = {} '
            'Ops = {} MaxOps = 0\n')


def x_cfg(dev, emit, maxentries, kinds, invs=True, only=False):
    return ("CONSTANTS\n Dev = {%s}\n Emit = %s\n Part = \"X\"\n Kinds = {%s}\n Names <- cNames\n Targets <- cTargets\n"
            " MaxEntries = %d\n Only <- cOnly\n %sINIT XInit\nNEXT XNext\nVIEW %s\n%sACTION_CONSTRAINT XEmitEdge\n" % (
                ",".join('"%s"' % d for d in dev), "TRUE" if emit else "FALSE",
                ",".join('"%s"' % k for k in kinds), maxentries, X_UNUSED, "viewH" if only else "view",
                "INVARIANTS NoEscape WellFormed\n" if invs else ""))


def tla_entry(e):
    return '[kind |-> "%s", name |-> %s, target |-> %s]' % (e["kind"], tla_seq(e["name"]), tla_seq(e["target"]))


def x_run(ctx, names, targets, maxentries, dev=(), emit=True, invs=True, kinds=("dir", "file", "sym", "hard"),
          expect_violation=False, simulate=None, depth=None, tag="MCX", only=None):
    """only: list of archives -> TLC extracts exactly these (hist kept in the view): used to ask what a given
    deviation predicts for archives observed on the real code"""
    conly = "{}" if not only else tla_set("<<" + ", ".join(tla_entry(e) for e in a) + ">>" for a in only)
    files = {tag + ".tla": mc_module(tag, {"cNames": tla_seqset(names), "cTargets": tla_seqset(targets),
                                           "cOnly": conly}),
             tag + ".cfg": x_cfg(dev, emit, maxentries, kinds, invs, only=bool(only))}
    return ctx.tlc(tag, tag + ".cfg", files=files, expect_violation=expect_violation, simulate=simulate, depth=depth,
                   name=tag, timeout=1500)


def arch_key(arch):
    return vf.canon(arch)


def x_cases(edges):
    """One case per distinct archive (the emitted edge already carries the whole archive in `arch`)."""
    seen, cases = {}, []
    for e in edges:
        k = arch_key(e["arch"])
        if k in seen:
            continue
        seen[k] = len(cases)
        cases.append({"id": len(cases), "arch": e["arch"], "st": e["st"], "t": e["t"]})
    return cases


X_WORLD = [
    {"p": ["s"], "k": "file", "i": 1, "abs": False, "t": [], "m": "d", "c": "s"},
    {"p": ["w"], "k": "dir", "i": 0, "abs": False, "t": [], "m": "d", "c": ""},
    {"p": ["w", "s"], "k": "file", "i": 2, "abs": False, "t": [], "m": "d", "c": "s"},
    {"p": ["w", "t"], "k": "dir", "i": 0, "abs": False, "t": [], "m": "d", "c": ""},
    {"p": ["w", "t", "s"], "k": "file", "i": 3, "abs": False, "t": [], "m": "d", "c": "s"},
]


def x_replay(ctx, cases, corrupt=-1, name="untar_cases.json"):
    inp = os.path.join(ctx.work, name)
    vf.write_json(inp, {"world": X_WORLD, "dest": ["w", "o"], "cases": cases, "corrupt": corrupt})
    r = ctx.gotest("filetransfer", HFILES + ["filetransfer/untar_test.go"], "^TestZZVUntarReplay$",
                   env={"ZZV_IN": inp, "ZZV_WORKERS": 4}, timeout=1500)
    summ = r.of("summary")
    if not summ:
        raise vf.Infra("untar replay harness produced no summary:\n" + r.out[-2000:])
    return summ[0], r.of("mismatch"), r.of("escape")


def snap_of_nodes(nodes):
    """spec node list -> the harness' snapshot form (for comparing a real tree with a Dev prediction)"""
    out, group = {}, {}
    for nd in sorted(nodes, key=lambda x: "/".join(x["p"])):
        p = "/".join(nd["p"])
        e = {"k": nd["k"]}
        if nd["k"] == "link":
            e["t"] = ("/" + "/".join(nd["t"])) if nd["abs"] else ("/".join(nd["t"]) or ".")
        elif nd["k"] == "file":
            e["c"] = nd["c"]
            e["m"] = nd["m"]
            e["g"] = group.setdefault(nd["i"], p)
        else:
            e["m"] = nd["m"]
        out[p] = e
    return out


def same_snap(real, pred):
    def norm(s):
        return {p: {k: v for k, v in e.items() if v not in ("", None)} for p, e in s.items()}
    return norm(real) == norm(pred)


# --------------------------------------------------------------------------- part A (C26)
A_UNUSED = "Kinds = {} Names = {} Targets = {} MaxEntries = 0 Only = {}\n"
OPS = ["upload", "download", "list", "stat", "chmod", "delete", "rdelete"]
WILD = ["rel", "*"]


def a_cfg(dev, emit, maxlinks, maxnodes, ops, maxops=1, invs=True):
    return ("CONSTANTS\n Dev = {%s}\n Emit = %s\n Part = \"A\"\n %s Trees = \"enum\"\n Slots <- cSlots\n"
            " LinkTargets <- cLinkTargets\n MaxLinks = %d\n MaxNodes = %d\n Patterns <- cPatterns\n Requests <- cRequests\n"
            " Ops = {%s}\n MaxOps = %d\nINIT AInit\nNEXT ANext\nVIEW view\n%sACTION_CONSTRAINT AEmitEdge\n" % (
                ",".join('"%s"' % d for d in dev), "TRUE" if emit else "FALSE", A_UNUSED, maxlinks, maxnodes,
                ",".join('"%s"' % o for o in ops), maxops, "INVARIANTS AccessInv WellFormed\n" if invs else ""))


def a_run(ctx, slots, linktargets, patterns, requests, maxlinks, maxnodes, dev=(), emit=True, invs=True, ops=OPS,
          expect_violation=False, tag="MCA"):
    """patterns: list of configurations, each a list of patterns (["abs","r","*"] / ["rel","*"])"""
    defs = {"cSlots": "<<" + ", ".join(tla_seq(s) for s in slots) + ">>",
            "cLinkTargets": tla_seqset(linktargets),
            "cPatterns": tla_set(tla_seqset(cfg) for cfg in patterns),
            "cRequests": tla_seqset(requests)}
    files = {tag + ".tla": mc_module(tag, defs), tag + ".cfg": a_cfg(dev, emit, maxlinks, maxnodes, ops, invs=invs)}
    return ctx.tlc(tag, tag + ".cfg", files=files, expect_violation=expect_violation, name=tag, timeout=1500)


def a_key(e):
    return vf.canon([sorted(vf.canon(n) for n in e["tree"]), sorted(vf.canon(p) for p in e["pats"]),
                     e["a"]["op"], e["a"]["req"]])


def a_cases(edges):
    seen, cases = set(), []
    for e in edges:
        k = a_key(e)
        if k in seen:
            continue
        seen.add(k)
        c = dict(e)
        c["id"] = len(cases)
        cases.append(c)
    return cases


def a_replay(ctx, cases, corrupt=-1, name="access_cases.json"):
    inp = os.path.join(ctx.work, name)
    vf.write_json(inp, {"cases": cases, "corrupt": corrupt})
    r = ctx.gotest("filetransfer", HFILES + ["filetransfer/access_test.go"], "^TestZZVAccessReplay$",
                   env={"ZZV_IN": inp, "ZZV_WORKERS": 4}, timeout=1500)
    summ = r.of("summary")
    if not summ:
        raise vf.Infra("access replay harness produced no summary:\n" + r.out[-2000:])
    return summ[0], r.of("mismatch"), r.of("escape")
