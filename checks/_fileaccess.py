# FileAccess.tla / FsCore.tla <-> internal/filetransfer (tar.go, stream.go, browse.go)   (C26, C27)
import json, os
import vf

HFILES = ["common/common_test.go.tmpl", "filetransfer/fsworld_test.go.tmpl"]
SITE_X = "UntarDirectory"


def tla_seq(seq):
    return "<<" + ", ".join('"%s"' % c.replace("\\", "\\\\") for c in seq) + ">>"


def tla_set(items):
    return "{" + ", ".join(items) + "}"


def tla_seqset(seqs):
    return tla_set(tla_seq(s) for s in seqs)


def mc_module(name, defs):
    body = "\n".join("%s == %s" % (k, v) for k, v in defs.items())
    return "---- MODULE %s ----\nEXTENDS FileAccess\n%s\n====\n" % (name, body)


# --------------------------------------------------------------------------- part X (C27)
X_UNUSED = ('Trees = "none" Slots = {} LinkTargets = {} MaxLinks = 0 MaxNodes = 0 Patterns = {} Requests = {} '
            'Ops = {} MaxOps = 0\n')


def x_cfg(dev, emit, maxentries, kinds, invs=True, only=False):
    return ("CONSTANTS\n Dev = {%s}\n Emit = %s\n Part = \"X\"\n Kinds = {%s}\n Names <- cNames\n Targets <- cTargets\n"
            " MaxEntries = %d\n Only <- cOnly\n ModeNames <- cModeNames\n %sINIT XInit\nNEXT XNext\nVIEW %s\n%sACTION_CONSTRAINT XEmitEdge\n" % (
                ",".join('"%s"' % d for d in dev), "TRUE" if emit else "FALSE",
                ",".join('"%s"' % k for k in kinds), maxentries, X_UNUSED, "viewH" if only else "view",
                "INVARIANTS NoEscape WellFormed\n" if invs else ""))


def tla_entry(e):
    return '[kind |-> "%s", name |-> %s, target |-> %s]' % (e["kind"], tla_seq(e["name"]), tla_seq(e["target"]))


def x_run(ctx, names, targets, maxentries, dev=(), emit=True, invs=True, kinds=("dir", "dirc", "file", "sym", "hard"),
          expect_violation=False, simulate=None, depth=None, tag="MCX", only=None, mode_names=(("x",), ("d",))):
    """only: list of archives -> TLC extracts exactly these (hist kept in the view): used to ask what a given
    deviation predicts for archives observed on the real code"""
    conly = "{}" if not only else tla_set("<<" + ", ".join(tla_entry(e) for e in a) + ">>" for a in only)
    files = {tag + ".tla": mc_module(tag, {"cNames": tla_seqset(names), "cTargets": tla_seqset(targets),
                                           "cOnly": conly, "cModeNames": tla_seqset(mode_names)}),
             tag + ".cfg": x_cfg(dev, emit, maxentries, kinds, invs, only=bool(only))}
    return ctx.tlc(tag, tag + ".cfg", files=files, expect_violation=expect_violation, simulate=simulate, depth=depth,
                   name=tag, timeout=1500)


def arch_key(arch):
    return vf.canon(arch)


def arch_text(arch):
    out = []
    for e in arch:
        n = "/".join(e["name"])
        if e["kind"] == "sym":
            out.append(n + " -> " + ("/" if e["target"][0] == "abs" else "") + "/".join(e["target"][1:]))
        elif e["kind"] == "hard":
            out.append(n + " => " + "/".join(e["target"]))
        else:
            out.append(n + ("/" if e["kind"] == "dir" else "/ (mode 0750)" if e["kind"] == "dirc" else ""))
    return "[" + ", ".join(out) + "]"


def x_cases(edges):
    """One case per distinct archive (the emitted edge already carries the whole archive in `arch`)."""
    seen, cases = {}, []
    for e in edges:
        k = arch_key(e["arch"])
        if k in seen:
            continue
        seen[k] = len(cases)
        cases.append({"id": len(cases), "arch": e["arch"], "st": e["st"], "t": e["t"]})
    return cases


class XGraph:
    """The ideal transition relation as a graph, so that the prediction for ANY archive over the alphabet can be
    computed by following it (TLC hides `hist`: the archive in an edge is the representative under which TLC first
    reached the source state; arch[:-1] of an edge therefore names its source state)."""

    def __init__(self, edges):
        self.state_of = {}      # archive key -> state key
        self.node = {}          # state key -> (st, nodes)
        self.out = {}           # state key -> {entry key: state key}
        for e in edges:
            sk = self._skey(e)
            self.state_of[arch_key(e["arch"])] = sk
            self.node.setdefault(sk, (e["st"], e["t"]))
        for e in edges:
            if not e["arch"]:
                continue
            src = self.state_of.get(arch_key(e["arch"][:-1]))
            if src is None:
                raise vf.Infra("ideal relation: source state of %s not found" % arch_key(e["arch"]))
            self.out.setdefault(src, {})[vf.canon(e["arch"][-1])] = self._skey(e)

    @staticmethod
    def _skey(e):
        return vf.canon([sorted(vf.canon(n) for n in e["t"]), e["st"], len(e["arch"])])

    def predict(self, arch):
        """(st, nodes) the ideal extractor produces for the archive, or None if the alphabet/bound does not cover it"""
        cur = self.state_of.get(arch_key([]))
        for ent in arch:
            if cur is None:
                return None
            if self.node[cur][0] != "open":
                break               # extraction stopped with an error at an earlier entry
            cur = self.out.get(cur, {}).get(vf.canon(ent))
        return self.node.get(cur) if cur is not None else None


def x_add_cases(cases, graph, archives, limit=None):
    """Append archives that are not cases yet (e.g. the ones a deviation lets escape), predicted by the ideal graph.
    limit: at most that many, the shortest ones first and the rest evenly spread over the (sorted) remainder"""
    have = set(arch_key(c["arch"]) for c in cases)
    archives = sorted((a for a in archives if arch_key(a) not in have), key=lambda a: (len(a), arch_key(a)))
    if limit is not None and len(archives) > limit:
        short = [a for a in archives if len(a) <= 2][:limit // 2]
        rest = [a for a in archives if len(a) > 2]
        step = max(1, len(rest) // max(1, limit - len(short)))
        archives = short + rest[::step][:limit - len(short)]
    added = 0
    for a in archives:
        k = arch_key(a)
        if k in have:
            continue
        p = graph.predict(a)
        if p is None:
            continue
        have.add(k)
        cases.append({"id": len(cases), "arch": a, "st": p[0], "t": p[1], "from_dev": True})
        added += 1
    return added


X_WORLD = [
    {"p": ["s"], "k": "file", "i": 1, "abs": False, "t": [], "m": "d", "c": "s"},
    {"p": ["w"], "k": "dir", "i": 0, "abs": False, "t": [], "m": "d", "c": ""},
    {"p": ["w", "s"], "k": "file", "i": 2, "abs": False, "t": [], "m": "d", "c": "s"},
    {"p": ["w", "t"], "k": "dir", "i": 0, "abs": False, "t": [], "m": "d", "c": ""},
    {"p": ["w", "t", "s"], "k": "file", "i": 3, "abs": False, "t": [], "m": "d", "c": "s"},
    {"p": ["w", "ox"], "k": "dir", "i": 0, "abs": False, "t": [], "m": "d", "c": ""},
    {"p": ["w", "ox", "s"], "k": "file", "i": 4, "abs": False, "t": [], "m": "d", "c": "s"},
]


# the extractors bound to part X: (go package, site name, deviation transcribing the pinned code, archive formats)
X_SITES = [("filetransfer", "UntarDirectory", "DevLexicalOnly", ("gz",)),
           ("health", "health.extractTarWithFallback", "DevNoLinkChecks", ("gz", "plain"))]


def x_replay(ctx, cases, corrupt=-1, name="untar_cases.json", pkg="filetransfer", plain=False):
    inp = os.path.join(ctx.work, name)
    vf.write_json(inp, {"world": X_WORLD, "dest": ["w", "o"], "cases": cases, "corrupt": corrupt})
    r = ctx.gotest(pkg, HFILES + ["filetransfer/untar_test.go.tmpl", pkg + "/untar_site_test.go"],
                   "^TestZZVUntarReplay$", env={"ZZV_IN": inp, "ZZV_WORKERS": 4, "ZZV_PLAIN": 1 if plain else 0},
                   timeout=1500)
    summ = r.of("summary")
    if not summ:
        raise vf.Infra("untar replay harness produced no summary:\n" + r.out[-2000:])
    return summ[0], r.of("mismatch"), r.of("escape")


def snap_of_nodes(nodes):
    """spec node list -> the harness' snapshot form (for comparing a real tree with a Dev prediction)"""
    out, group = {}, {}
    for nd in sorted(nodes, key=lambda x: "/".join(x["p"])):
        p = "/".join(nd["p"])
        e = {"k": nd["k"]}
        if nd["k"] == "link":
            e["t"] = ("/" + "/".join(nd["t"])) if nd["abs"] else ("/".join(nd["t"]) or ".")
        elif nd["k"] == "file":
            e["c"] = nd["c"]
            e["m"] = nd["m"]
            e["g"] = group.setdefault(nd["i"], p)
        else:
            e["m"] = nd["m"]
        out[p] = e
    return out


def same_snap(real, pred):
    def norm(s):
        return {p: {k: v for k, v in e.items() if v not in ("", None)} for p, e in s.items()}
    return norm(real) == norm(pred)


# --------------------------------------------------------------------------- part A (C26)
A_UNUSED = "Kinds = {} Names = {} Targets = {} MaxEntries = 0 Only = {} ModeNames = {}\n"
OPS = ["upload", "download", "list", "stat", "chmod", "delete", "rdelete"]
WILD = ["rel", "*"]


def a_cfg(dev, emit, maxlinks, maxnodes, ops, maxops=1, invs=True):
    return ("CONSTANTS\n Dev = {%s}\n Emit = %s\n Part = \"A\"\n %s Trees = \"enum\"\n Slots <- cSlots\n"
            " LinkTargets <- cLinkTargets\n MaxLinks = %d\n MaxNodes = %d\n Patterns <- cPatterns\n Requests <- cRequests\n"
            " Ops = {%s}\n MaxOps = %d\nINIT AInit\nNEXT ANext\nVIEW view\n%sACTION_CONSTRAINT AEmitEdge\n" % (
                ",".join('"%s"' % d for d in dev), "TRUE" if emit else "FALSE", A_UNUSED, maxlinks, maxnodes,
                ",".join('"%s"' % o for o in ops), maxops, "INVARIANTS AccessInv WellFormed\n" if invs else ""))


def a_run(ctx, slots, linktargets, patterns, requests, maxlinks, maxnodes, dev=(), emit=True, invs=True, ops=OPS,
          expect_violation=False, tag="MCA"):
    """patterns: list of configurations, each a list of patterns (["abs","r","*"] / ["rel","*"])"""
    defs = {"cSlots": "<<" + ", ".join(tla_seq(s) for s in slots) + ">>",
            "cLinkTargets": tla_seqset(linktargets),
            "cPatterns": tla_set(tla_seqset(cfg) for cfg in patterns),
            "cRequests": tla_seqset(requests)}
    files = {tag + ".tla": mc_module(tag, defs), tag + ".cfg": a_cfg(dev, emit, maxlinks, maxnodes, ops, invs=invs)}
    return ctx.tlc(tag, tag + ".cfg", files=files, expect_violation=expect_violation, name=tag, timeout=1500)


def a_key(e):
    return vf.canon([sorted(vf.canon(n) for n in e["tree"]), sorted(vf.canon(p) for p in e["pats"]),
                     e["a"]["op"], e["a"]["req"]])


def a_cases(edges):
    seen, cases = set(), []
    for e in edges:
        k = a_key(e)
        if k in seen:
            continue
        seen.add(k)
        c = dict(e)
        c["id"] = len(cases)
        cases.append(c)
    return cases


def a_replay(ctx, cases, corrupt=-1, name="access_cases.json"):
    inp = os.path.join(ctx.work, name)
    vf.write_json(inp, {"cases": cases, "corrupt": corrupt})
    r = ctx.gotest("filetransfer", HFILES + ["filetransfer/access_test.go"], "^TestZZVAccessReplay$",
                   env={"ZZV_IN": inp, "ZZV_WORKERS": 4}, timeout=1500)
    summ = r.of("summary")
    if not summ:
        raise vf.Infra("access replay harness produced no summary:\n" + r.out[-2000:])
    return summ[0], r.of("mismatch"), r.of("escape")
