# KeyAgreement.tla <-> real agents on cmesh + internal/crypto   (C03, C04)
#
# model()    TLC: the ideal spec holds on 2 concurrent tunnels x {1,2} transits (+ dishonest peers), every
#            deviation relevant to the calling property is caught, E4 vectors are printed
# traces()   code -> spec: TestZZVKeysTrace records real tunnels of every kind on A-B-C / A-B-C-D, TLC validates
# puppet()   E4 on whole agents: degenerate keys from puppet ingress / puppet exit
# vectors()  E4 on crypto.ComputeECDH / DeriveSessionKey directly
import json, os, shutil, subprocess
import vf

ALLK = ["tcp-ip", "tcp-domain", "forward", "udp", "icmp", "shell", "shell-tty", "file-upload", "file-download"]
INVS = "TypeOK KeysAgree DistinctInputsDistinctKeys DegenerateRefused NoDataBeforeKey TransitSeesOnlyCiphertext TransitNeverHoldsKey PayloadIntact"
TRACE_INVS = "KeysAgree DistinctInputsDistinctKeys DegenerateRefused NoDataBeforeKey TransitSeesOnlyCiphertext TransitNeverHoldsKey PayloadIntact"
# deviation -> (property it belongs to, invariant expected to catch it, cfg overrides)
DEVS = {
    "DevSwapPubOrder":       ("C03", "KeysAgree", {}),
    "DevUsePerHopStreamId":  ("C03", "KeysAgree", {}),
    "DevNoDegenerateCheck":  ("C03", "DegenerateRefused", {"adv": True, "classes": ["lo8a"]}),
    "DevSaltOmitsRid":       ("C03", "DistinctInputsDistinctKeys", {"pool": ["a"], "rids": [1, 2]}),
    "DevPlaintextFallback":  ("C04", "TransitSeesOnlyCiphertext", {"adv": True, "classes": ["zero"], "k1": ["udp"], "k2": ["udp"], "maxdata": 1}),
    "DevTransitDerives":     ("C04", "TransitNeverHoldsKey", {}),
    "DevDataBeforeKey":      ("C04", "NoDataBeforeKey", {"k1": ["udp"], "k2": [], "maxdata": 1, "life": True}),
    "DevSealAfterKeyWipe":   ("C04", "TransitSeesOnlyCiphertext", {"k1": ["tcp-ip"], "k2": [], "maxdata": 1, "life": True}),
    "DevPlainAfterKeyCleared": ("C04", "TransitSeesOnlyCiphertext", {"k1": ["udp"], "k2": [], "maxdata": 1, "life": True}),
}
HFILES = ["common/common_test.go.tmpl", "agent/cmesh_test.go", "agent/keys_test.go"]


def tset(xs):
    return "{" + ", ".join(('"%s"' % x) if isinstance(x, str) else str(x) for x in xs) + "}"


def cfg(nt=1, k1=("tcp-ip",), k2=("tcp-ip",), rids=(1,), maxdata=0, classes=(), adv=False, pool=(), dev=(),
        emitvec=False, invs=INVS, trace=False, life=False):
    c = ("CONSTANTS NT = %d\n Kinds1 = %s\n Kinds2 = %s\n RIDs = %s MaxData = %d Classes = %s Adversary = %s EphPool = %s "
         "Lifecycle = %s Dev = %s EmitVec = %s\n" % (nt, tset(k1), tset(k2), tset(rids), maxdata, tset(classes),
                                                     "TRUE" if adv else "FALSE", tset(pool), "TRUE" if life else "FALSE",
                                                     tset(dev), "TRUE" if emitvec else "FALSE"))
    if trace:
        c += "INIT TraceInit\nNEXT TraceNext\nCONSTRAINT HighWater\nPOSTCONDITION TraceAccepted\n"
    else:
        c += "INIT Init\nNEXT Next\n"
    if invs:
        c += "INVARIANTS " + invs + "\n"
    return c


def model(ctx, prop):
    """Returns dict(states, transitions, runs, caught, vec, vece, vecd)."""
    q = ctx.quick()
    runs = []
    kinds8 = [k for k in ALLK if k != "shell-tty"]
    plan = [
        # honest endpoints: every kind for the first tunnel, 1 transit
        ("honest-nt1", dict(nt=1, k1=ALLK if not q else kinds8, k2=["tcp-ip"] if q else ["tcp-ip", "udp"], rids=[1] if q else [1, 2],
                            maxdata=1, emitvec=True)),
        # 2 transits
        ("honest-nt2", dict(nt=2, k1=["tcp-ip"] if q else ["tcp-ip", "udp", "shell"], k2=["udp"], rids=[1] if q else [1, 2], maxdata=1)),
        # dishonest peers (puppet ingress / puppet exit with degenerate keys), every kind
        ("adversary-nt1", dict(nt=1, k1=["tcp-ip", "udp", "shell"] if q else kinds8, k2=["udp"] if q else ["udp", "tcp-ip"],
                               rids=[1], maxdata=1, adv=True, classes=["zero", "lo8a"])),
    ]
    if prop == "C04":
        # life cycle: open timeout / late ACK, close racing with the exit's Read ; Seal return path
        plan.append(("lifecycle-nt2", dict(nt=2, k1=["tcp-ip", "udp"], k2=[], rids=[1], maxdata=1, life=True)))
        if not q:
            plan.append(("lifecycle-2tunnels-nt1", dict(nt=1, k1=["tcp-ip"], k2=["udp"], rids=[1], maxdata=1, life=True)))
    if prop == "C03":
        # ephemeral keys drawn from a pool (not fresh): equal inputs <-> equal keys
        plan.append(("pool-nt1", dict(nt=1, k1=["tcp-ip"], k2=["tcp-ip"], rids=[1, 2], maxdata=0, pool=["a", "b"])))
    states = trans = 0
    vec, vece, vecd = [], [], []
    for name, kw in plan:
        r = ctx.tlc("KeyAgreement", "MC_%s.cfg" % name, files={"MC_%s.cfg" % name: cfg(**kw)}, tags=("VEC", "VECE", "VECD"),
                    name="ka-" + name, workers=4 if q else None)
        if r.violated:
            raise vf.Infra("ideal KeyAgreement spec violates %s in %s (specification error)" % (r.violated, name))
        states += r.distinct
        trans += r.generated
        runs.append({"cfg": name, "constants": {k: v for k, v in kw.items()}, "states": r.distinct, "transitions": r.generated,
                     "depth": r.depth})
        vec += [o for t, o in r.prints if t == "VEC"]
        vece += [o for t, o in r.prints if t == "VECE"]
        vecd += [o for t, o in r.prints if t == "VECD"]
    if not vec or not vece or not vecd:
        raise vf.Infra("TLC printed no E4 vectors")
    bad = [v for v in vec if v["impl"] not in v["oracle"]]
    if bad:
        raise vf.Infra("transcribed implementation contradicts the oracle in the ideal spec: %s" % bad[:3])
    caught = {}
    for d, (p, inv, over) in DEVS.items():
        if p != prop:
            continue
        kw = dict(nt=1, k1=["tcp-ip"], k2=["tcp-ip"], rids=[1], maxdata=0, dev=[d])
        kw.update(over)
        r = ctx.tlc("KeyAgreement", "MCdev.cfg", files={"MCdev.cfg": cfg(**kw)}, expect_violation=True, name="ka-" + d, workers=2)
        if not r.violated:
            raise vf.Infra("deviation %s is not detected by the invariants (vacuous model)" % d)
        if r.violated != inv:
            raise vf.Infra("deviation %s is caught by %s, expected %s" % (d, r.violated, inv))
        caught[d] = r.violated
    return {"states": states, "transitions": trans, "runs": runs, "caught": caught, "vec": vec, "vece": vece, "vecd": vecd}


# ----------------------------------------------------------------------------------------------- private netns
def netns_env(ctx):
    """Unprivileged ICMP sockets (which the exit's ICMP handler needs) are disabled in this sandbox
    (net.ipv4.ping_group_range = "1 0").  If we may create a private network namespace, the Go harness runs inside one
    with the range opened and loopback up: nothing outside the namespace changes.  Returns (env, note)."""
    if os.environ.get("ZZV_NO_NETNS"):
        return {}, "private network namespace disabled by ZZV_NO_NETNS"
    setup = 'echo "0 2147483647" > /proc/sys/net/ipv4/ping_group_range && ip link set lo up'
    try:
        p = subprocess.run(["unshare", "-n", "sh", "-c", setup], stdout=subprocess.PIPE, stderr=subprocess.STDOUT, timeout=20)
        ok = p.returncode == 0
    except Exception:
        ok = False
    if not ok:
        return {}, "no private network namespace available"
    real = shutil.which("go", path=vf.goenv().get("PATH"))
    if not real:
        return {}, "go not found"
    d = ctx.scratch("nsbin")
    w = os.path.join(d, "go")
    with open(w, "w") as f:
        f.write("#!/bin/sh\nexec unshare -n sh -c '%s; exec \"$@\"' sh %s \"$@\"\n" % (setup, real))
    os.chmod(w, 0o755)
    return {"PATH": d + ":" + os.environ.get("PATH", "")}, "harness runs in a private network namespace (unshare -n) with unprivileged ICMP enabled"


# ----------------------------------------------------------------------------------------------- traces
def load_events(path):
    out = []
    with open(path) as f:
        for line in f:
            line = line.strip()
            if line:
                out.append(json.loads(line))
    return out


def segments(events):
    segs, cur = [], None
    for e in events:
        if e["ev"] == "Reset":
            cur = [e]
            segs.append(cur)
        elif cur is not None:
            cur.append(e)
    return segs


def seg_kinds(seg):
    return {e["t"]: e["kind"] for e in seg if e["ev"] == "Open" and e.get("hop") == 1}


def run_traces(ctx, extra_env=None):
    """Runs the cmesh harness once; returns dict(records, topo: {nt: {events, info}}, notes)."""
    env, note = netns_env(ctx)
    out = ctx.scratch("keytraces")
    e = dict(env)
    e.update(extra_env or {})
    e["ZZV_OUT_DIR"] = out
    e["ZZV_ROUNDS"] = 1 if ctx.quick() else 10
    r = ctx.gotest("agent", HFILES, "^TestZZVKeysTrace$", env=e, timeout=1500)
    topos = {}
    for t in r.of("topo"):
        topos[t["nt"]] = {"info": t, "events": load_events(t["trace"])}
    if sorted(topos) != [1, 2]:
        raise vf.Infra("trace harness did not produce both topologies:\n" + r.out[-3000:])
    summ = r.of("summary")
    if not summ:
        raise vf.Infra("trace harness produced no summary")
    hard = [a for a in r.of("anomaly") if a.get("what") not in ("plaintext marker in a non-data frame", "undecodable data frame",
                                                                  "open payload differs from the previous hop",
                                                                  "key derivation that mentions no known initiator key")]
    if hard:
        raise vf.Infra("trace harness could not attribute observations: %s" % hard[:3])
    failed = [dict(f, transits=nt) for nt, t in topos.items() for f in t["info"].get("failed", [])]
    return {"rec": r, "topos": topos, "note": note, "summary": summ[0], "failed": failed}


def require_completed(ctx, T):
    """Operations the real agents did not complete are an infrastructure problem - unless the run already shows a
    violation of the property (a broken key agreement makes tunnels fail)."""
    if T["failed"] and not ctx.violations and not ctx.known_hits:
        raise vf.Infra("the real agents did not complete %d operation(s), e.g. %s" % (len(T["failed"]), T["failed"][:3]))


def validate(ctx, nt, events, name, dev=(), invs=TRACE_INVS):
    path = os.path.join(ctx.work, name + ".ndjson")
    vf.write_ndjson(path, events)
    cfgname = "Trace_%s.cfg" % name
    e = {"TRACE_FILE": path}
    res = ctx.tlc("TraceKeyAgreement", cfgname, files={cfgname: cfg(nt=nt, k1=ALLK, k2=ALLK, rids=[], maxdata=1000000, dev=dev,
                                                                     invs=invs, trace=True)},
                  workers=1, env=e, expect_violation=True, name=name, tags=("HW", "LEN"), dump_trace=False)
    hw = [o for t, o in res.prints if t == "HW"]
    ln = [o for t, o in res.prints if t == "LEN"]
    if res.violated and res.violated != "postcondition":
        return {"accepted": False, "hw": hw[-1] if hw else None, "invariant": res.violated, "event": None, "res": res}
    if not hw or not ln:
        raise vf.Infra("trace validation did not reach its postcondition:\n" + res.out[-3000:])
    h, n = hw[-1], ln[-1]
    if n != len(events):
        raise vf.Infra("TLC read %d events, the trace has %d" % (n, len(events)))
    ok = (h == n + 1)
    return {"accepted": ok, "hw": h, "invariant": None, "event": None if ok else events[h - 1], "res": res,
            "context": None if ok else events[max(0, h - 8):h]}


def classify(ctx, nt, seg, idx, name):
    """Best effort: which single deviation of the spec makes it accept the rejected event (scenario validated alone)?
    idx = 1-based index of the rejected event inside the scenario."""
    out = []
    ev = seg[idx - 1] if 0 < idx <= len(seg) else {}
    data_devs = ("DevPlaintextFallback", "DevDataBeforeKey", "DevSealAfterKeyWipe", "DevPlainAfterKeyCleared")
    for d in DEVS:
        if (ev.get("ev") in ("Data", "Recv")) != (d in data_devs):
            continue
        try:
            v = validate(ctx, nt, seg, name + "-" + d, dev=[d], invs="")
        except vf.Infra:
            continue
        if v["invariant"] is None and v["hw"] is not None and v["hw"] > idx:
            out.append(d)
    return out


def extra_derivation(ev, prior):
    """A Derive event by somebody who is not an endpoint, or a second one by the same endpoint of the tunnel."""
    if ev.get("ev") != "Derive":
        return False
    if ev.get("agent") not in ("I", "X"):
        return True
    return any(p.get("ev") == "Derive" and p.get("t") == ev.get("t") and p.get("init") == ev.get("init") for p in prior)


def validate_all(ctx, nt, events, name, relevant, keep=None, max_iter=12):
    """Validates the scenarios of one topology.  A rejection is handed to relevant(event, kind, prior events of the
    scenario) -> finding key or None; scenarios with a rejection that does not concern the calling property are
    dropped (together with all scenarios of the same tunnel kind) and validation continues.
    Returns (validated_tunnels, findings, dropped, validated segments)."""
    if keep:
        events = [e for e in events if keep(e)]
    segs = segments(events)
    findings, dropped = [], []
    for it in range(max_iter):
        evs = [e for s in segs for e in s]
        if not evs:
            break
        v = validate(ctx, nt, evs, "%s-%d" % (name, it))
        if v["accepted"]:
            break
        if v["invariant"]:
            findings.append(("invariant:" + v["invariant"], "recorded execution violates invariant %s of KeyAgreement.tla" % v["invariant"],
                             {"tlc_tail": v["res"].out[-2500:]}, None))
            segs = []
            break
        # find the scenario of the rejected event
        h = v["hw"]
        pos = 0
        bad = None
        for s in segs:
            if pos < h <= pos + len(s):
                bad = s
                break
            pos += len(s)
        ev = v["event"]
        kinds = seg_kinds(bad) if bad else {}
        kind = kinds.get(ev.get("t"), "?")
        key = relevant(ev, kind, bad[:h - pos - 1] if bad else [])
        if key:
            devs = classify(ctx, nt, bad, h - pos, "%s-%d-cls" % (name, it)) if (bad and not findings) else []
            findings.append((key,
                             "recorded execution of real agents (%d transit(s), %s tunnel) is not a behaviour of KeyAgreement.tla: "
                             "event #%d %s cannot be matched%s" % (nt, kind, h, json.dumps(ev, sort_keys=True),
                                                                  (" (the scenario is accepted with deviation %s)" % "/".join(devs)) if devs else ""),
                             {"event_index": h, "event": ev, "context": v["context"], "kind": kind, "transits": nt, "deviations": devs},
                             kind))
        else:
            dropped.append({"kind": kind, "event": ev})
        segs = [s for s in segs if kind not in seg_kinds(s).values() and s is not bad]
    else:
        raise vf.Infra("trace validation did not converge after %d rounds" % max_iter)
    ntun = sum(len(seg_kinds(s)) for s in segs)
    return ntun, findings, dropped, segs


# ----------------------------------------------------------------------------------------------- puppet / vectors
def run_puppet(ctx):
    env, note = netns_env(ctx)
    r = ctx.gotest("agent", HFILES, "^TestZZVKeysPuppet$", env=env, timeout=900)
    pv = r.of("pvec")
    ps = r.of("psummary")
    if not pv or not ps:
        raise vf.Infra("puppet harness produced no vectors:\n" + r.out[-3000:])
    return pv, ps[0], note


def run_boundary(ctx):
    """Boundary request identifiers (0, 1, 2^32, 2^63, 2^64-1, equal to / different from the hop's stream id) on every
    responder path (puppet ingress -> real transit -> real exit) and on the initiator paths whose request id comes from
    the stream manager's counter (real ingress -> real transit -> puppet exit)."""
    env, note = netns_env(ctx)
    r = ctx.gotest("agent", HFILES, "^TestZZVKeysBoundary$", env=env, timeout=900)
    bv, bs = r.of("bvec"), r.of("bsummary")
    if not bv or not bs:
        raise vf.Infra("boundary harness produced no vectors:\n" + r.out[-3000:])
    return bv, bs[0]


def run_vectors(ctx, m):
    classes = sorted(set(v["class"] for v in m["vece"]))
    inp = os.path.join(ctx.work, "ecdh_vectors.json")
    vf.write_json(inp, {"classes": classes, "triples": m["vecd"], "privs": 8 if ctx.quick() else 64,
                        "random": 300 if ctx.quick() else 20000})
    r = ctx.gotest("crypto", ["common/common_test.go.tmpl", "crypto/ecdh_vectors_test.go"], "^TestZZVECDHVectors$", env={"ZZV_IN": inp})
    cl = {c["class"]: c for c in r.of("class")}
    tr, rn = r.of("triples"), r.of("random")
    if set(cl) != set(classes) or not tr or not rn:
        raise vf.Infra("vector harness incomplete:\n" + r.out[-2000:])
    return cl, tr[0], rn[0]
