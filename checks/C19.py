# C19 - Exit agents only connect to permitted destinations
#
# Interpretation (permissive side, see DESIGN.md 1.7):
#  * The statement is one-directional ("only when"): a violation is an outbound connection (or a call of the dialer)
#    for a destination that is NOT permitted.  Refusing a permitted destination is not a violation of C19.
#  * "permitted" = the destination address (for a domain-typed request: the address the name resolves to, or an IP
#    literal given as a name) lies in a configured exit network or in a dynamic network that is present in the
#    routing manager at that moment, or the requested name matches a configured domain pattern.  Pattern matching is
#    taken in its most liberal reading (case-insensitive, "*.x" matches any depth below x), so the oracle never
#    demands more than the statement; the code's stricter single-level matching is inside that bound.
#  * An IPv4-mapped IPv6 destination ::ffff:a.b.c.d is the IPv4 destination a.b.c.d.
#  * A dial attempt is observed as a TCP accept on a loopback listener bound to the destination; for destinations
#    the pinned code cannot connect to (IPv6: host:port is built without brackets) the STREAM_OPEN_ERR of a failed
#    net.Dialer call (code refused/timeout and message "dial ...") counts as a dial attempt.
#  * Divergences between spec and code that are not such a dial (allow-list shape, error classes, refusing a
#    permitted destination) are never reported as violations: without an accompanying violation they are exit 2
#    ("the specification no longer describes the code").
import vf, _exitpolicy as E


def run(ctx):
    meta, ideal, histr, extra, caught, cex = E.c19_model(ctx)
    init = E.is_init(meta)
    paths = list(cex)
    pe, nn_e, ne_e = vf.path_cover(ideal.edges, init_pred=init)
    for p in pe:
        p["tag"] = "edge"
    if ideal.second is not None:
        pe2, nn2, ne2 = vf.path_cover(ideal.second.edges, init_pred=init)
        for p in pe2:
            p["tag"] = "edge"
        pe += pe2
        ne_e += ne2
    ph, nn_h, ne_h = E.tree_paths(histr.edges, init, "hist")
    paths += pe + ph
    states = ideal.distinct + histr.distinct + (ideal.second.distinct if ideal.second is not None else 0)
    trans = ne_e + ne_h
    for x in extra:
        px, nx, ex = E.tree_paths(x.edges, init, "hist")
        paths += px
        states += x.distinct
        trans += ex
    import os
    summ, mism = E.c19_replay(ctx, meta, paths, corrupt=os.environ.get("ZZV_C19_CORRUPT"))
    ctx.log("replayed %d paths, %d steps, %d open requests, %d mismatches, %d ms" % (
        summ["paths"], summ["steps"], summ["opens"], summ["mismatches"], summ["ms"]))

    # which deviations does the real code exhibit?  (the last step of a counterexample is the offending request)
    reproduced = {}
    for d in E.C19_DEVS:
        reproduced[d] = any(m["tag"] == "cex:" + d and m["class"] == "overpermit" for m in mism)
    over = [m for m in mism if m["class"] == "overpermit"]
    other = [m for m in mism if m["class"] != "overpermit" and not m["tag"].startswith("cex:")]
    seen = set()
    for m in over:
        cause = E.cause_of(meta, m)
        devs = sorted(d for d in E.C19_DEVS if reproduced[d] and E.DEV_CAUSE[d] == cause)
        key = "ExitPolicy:%s:%s" % ("+".join(devs) or "no-model-deviation", cause)
        if key in seen:
            continue
        seen.add(key)
        a = m["a"]
        what = ("exit agent (config %s) after [%s] answered a STREAM_OPEN for %s %s (%s) with %s%s although the destination "
                "is not in a configured or present dynamic network and matches no pattern; allow list %s, dynamic "
                "routes %s" % (m["cfg"], "; ".join(m["hist"]) or "no route operation", a.get("kind"), a.get("addr"),
                               a.get("dest"), m["real_res"], (" to " + m["obs"]["dialed"]) if m["obs"].get("dialed") else "",
                               m["real_t"]["allow"], {k: v for k, v in m["real_t"]["dyn"].items() if v}))
        ctx.finding(key, what, {"mismatch": m, "overpermits": len(over), "other_divergences": len(other),
                                "first_divergences": other[:3]})
    if other and not over:
        m = other[0]
        raise vf.Infra("ExitPolicy.tla no longer describes the code (%d divergences, none of them a connection to a "
                       "non-permitted destination); first: class=%s cfg=%s hist=%s action=%s spec=%s/%s real=%s/%s" % (
                           len(other), m["class"], m.get("cfg"), m.get("hist"), m.get("a"), m.get("spec_res"),
                           vf.canon(m.get("spec_t")), m.get("real_res"), vf.canon(m.get("real_t"))))
    sample_h = [p for p in ph if len(p["steps"]) > 6]
    ctx.evidence("model_checking",
                 assumptions=["bounded universe: 5 networks (127.1.0.0/16, nested 127.1.2.0/24, ::1/128 and the default routes "
                              "0.0.0.0/0 and ::/0), 8 configurations (nothing, exit disabled, network + patterns, two narrow "
                              "networks, a default route of one family alone / next to a narrow network of the other family), "
                              "23 destinations (IPv4, IPv6 incl. one outside ::1, IPv4-mapped, names incl. IPv6-only names, IP "
                              "literals of both families, case variants, near-miss names), metrics {1,2}; membership is "
                              "family-aware (an IPv4 or IPv4-mapped address lies in IPv4 networks only)",
                              "the state graph is explored exhaustively (route operations of any length); in addition every "
                              "history of <= %d add/remove operations is executed on a fresh real agent" %
                              (3 if ctx.quick() else 5),
                              "names are resolved by a fake DNS server of the harness / the hosts file; dial attempts are "
                              "observed as TCP accepts on loopback listeners (IPv6 ::1 connections cannot be made by the "
                              "pinned code, there a failed dialer call is the observation)",
                              "one-directional reading: refusing a permitted destination is not a violation"],
                 states=states, transitions=trans, exhaustive=True,
                 traces_validated_against_impl=summ["paths"],
                 replayed_steps=summ["steps"], open_requests=summ["opens"], open_outcomes=summ["outcomes"],
                 replay_mismatches=len([m for m in mism if not m["tag"].startswith("cex:")]),
                 edge_paths=len(pe), history_paths=len(paths) - len(pe) - len(cex),
                 deviations_caught=caught, deviations_reproduced_on_code=reproduced,
                 samples=[{"history_path": [s["a"] for s in (sample_h or ph)[0]["steps"]][:10]},
                          {"counterexample_DevDuplicateOnReAdd": [s["a"] for s in cex[0]["steps"]]}])
