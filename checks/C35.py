# C35 - Redacted configuration output never reveals a secret
#
# Interpretation (permissive side):
# * secrets = the fields named by the statement: tls.key_pem (global, every peer, every listener: the private key
#   material; the *path* fields tls.key are not counted), peers[].proxy_auth.password, socks5.auth.users[].password and
#   .password_hash, agent.private_key, shell.password_hash, file_transfer.password_hash, management.private_key,
#   management.signing_private_key.  http.token_hash is not in the statement and is not checked.
# * "contains none of the secret values": every secret value embeds a unique 15+ character marker; the rendering
#   must contain the marker neither verbatim nor base64-encoded (YAML renders non-UTF-8 text as !!binary).
# * "never changes the original": the configuration is deep-equal to a snapshot taken before String()/Redacted().
import vf, _configtext as T


def run(ctx):
    ideal, vecs, caught = T.model(ctx, "redact")
    q = ctx.quick()
    summ, r = T.harness(ctx, "TestZZVRedact", vecs, {"ZZV_REPS": 1 if q else 6, "ZZV_MIXED": 300 if q else 6000})
    if summ is None:
        raise vf.Infra("redaction harness died:\n" + r.out[-3000:])
    if summ["detector_blind"]:
        raise vf.Infra("leak detector does not recognise %d secret values in the UNREDACTED rendering (first: %s)" % (
            summ["detector_blind"], r.of("blind")[:1]))
    cb = r.of("copybreak")
    real_breaking = sorted(k for k, n in cb[0]["breaks"].items() if n > 0) if cb else []
    if cb and set(real_breaking) != T.COPY_BREAKING:
        ctx.log("note: value classes breaking the YAML round trip on the real library: %s (spec CopyBreaking: %s)" % (
            real_breaking, sorted(T.COPY_BREAKING)))
    for v in r.of("viol"):
        c = v["case"]
        kind = c["focus"]["kind"]
        if v["cls"] in ("leak", "unmasked"):
            # explained by the fail-open copy iff the spec predicts that the copy of this configuration fails and the
            # code handed out the original
            if not v.get("mixed") and not v["spec_copyok"] and v.get("returned_original"):
                key = "ConfigText:DevFailOpenCopy:Config.Redacted"
            elif v.get("mixed") and v.get("returned_original"):
                key = "ConfigText:DevFailOpenCopy:Config.Redacted"
            elif v.get("leaked") and not v.get("returned_original") and all(
                    l.split(":")[-1] in T.REF_SHAPED for l in v["leaked"]):
                # only values that are as a whole one variable reference escaped the mask
                key = "ConfigText:DevSkipRefShaped:redact"
            else:
                first = (v.get("leaked") or v.get("not_masked") or [kind])[0]     # "kind[idx]:class"
                key = "ConfigText:unexplained:%s:%s:%s" % (v["cls"], first.split("[")[0],
                                                          first.split(":")[-1] if ":" in first else c["fclass"])
            what = "redacted rendering reveals %s secret value(s) %s (focus %s[%s] class %s = %s, other secrets %s, other " \
                   "strings %s, %d list entries; Redacted() returned the original: %s)" % (
                       v.get("nleaked", len(v.get("not_masked", []))), (v.get("leaked") or v.get("not_masked"))[:4], kind,
                       c["focus"]["idx"], c["fclass"], v.get("focus_value"), c["bg"], c["others"], c["n"],
                       v.get("returned_original"))
        else:
            key = "ConfigText:DevShallowCopy:Config.Redacted" if v["cls"] == "origchanged" else \
                "ConfigText:unexplained:%s:%s" % (v["cls"], kind)
            what = "producing the redacted rendering changed the original configuration: %s" % v.get("changed_fields")
        ctx.finding(key, what, v)
    ctx.evidence(
        "exploration",
        assumptions=[
            "value classes (ascii, YAML-special, control characters, leading newline, non-UTF-8, long multi-line PEM; "
            "for secrets also values shaped like what config.go itself interprets: $NAME, ${NAME}, ${NAME:-default}, "
            "${...} with arbitrary bytes, unclosed ${, whole-value matches of every regexp compiled in config.go, its "
            "string constants) are instantiated by seeded generators; other classes of text are not covered",
            "one focus secret slot per case, all other secrets share one class (plus seeded configurations with an "
            "independent random class per string field)",
            "a leak is recognised by the unique marker embedded in each secret value, verbatim or base64",
        ],
        evaluations=summ["evaluations"], distinct_nontrivial=len(set(vf.canon(v["c"]) for v in vecs)),
        rule="TLC enumerates focus secret slot (11 kinds, list positions first/middle/last) x value class of the focus x "
             "class of the other secrets x class of all non-secret strings x list length; every case populates at least "
             "one secret (non-trivial) and is distinct by construction; each is instantiated on a real Config with every "
             "string field filled",
        exhaustive=False, tlc_cases=len(vecs), tlc_states=ideal.distinct, mixed_class_configs=summ["mixed"],
        leaks=summ["leaks"], original_changed=summ["orig_changed"], returned_original=summ["returned_original"],
        yaml_roundtrip_breaking_classes=real_breaking, source_regexps=summ.get("source_patterns"),
        source_constants=summ.get("source_constants"), max_rendering_bytes=summ["max_rendering_bytes"],
        deviations_caught=caught, violation_classes=summ["violation_classes"], samples=summ["samples"] or [vecs[0]])
