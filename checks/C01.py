# C01 - End-to-end sessions accept only fresh, authentic messages from the other end
import vf, _session as S


def run(ctx):
    maxc, maxmsgs, ideal, caught, devrel = S.model(ctx, None)
    paths, nnodes, nedges, steps, mism = S.replay(ctx, maxc, ideal, devrel)
    # every replay mismatch on a Deliver/Forge step is about acceptance (C01); Encrypt mismatches are C02's
    S.report(ctx, mism, devrel, lambda dev, mm: mm.get("a", {}).get("act") != "Encrypt")
    ntr, nops = (60, 80) if ctx.quick() else (3000, 200)
    summ, res, hw, ln, events = S.traces(ctx, "TestZZVSessionTrace", {"ZZV_TRACES": ntr, "ZZV_OPS": nops}, "c01trace")
    if res.violated and res.violated != "postcondition":
        ctx.finding("Session:trace-invariant:%s" % res.violated,
                    "a recorded execution of the real SessionKey violates invariant %s of Session.tla" % res.violated,
                    {"tlc_tail": res.out[-3000:]})
    elif hw != ln + 1:
        ev = events[hw - 1] if 0 < hw <= len(events) else None
        ctx.finding("Session:trace-rejected:%s:%s" % (ev and ev.get("ev"), ev and ev.get("res")),
                    "recorded execution is not a behaviour of Session.tla: event #%d %s cannot be matched" % (hw, ev),
                    {"event_index": hw, "event": ev, "context": events[max(0, hw - 12):hw]})
    # concurrent delivery on one endpoint: call/return events, TLC searches a linearisation
    rounds, g = (30, 6) if ctx.quick() else (300, 8)
    csumm, cres, chw, cln, cevents = S.traces(ctx, "TestZZVSessionConcRecv", {"ZZV_ROUNDS": rounds, "ZZV_G": g},
                                              "c01concrecv", cfg="TraceSessionSeal.cfg", dfs=True)
    if chw != cln + 1:
        ev = cevents[chw - 1] if 0 < chw <= len(cevents) else None
        ctx.finding("Session:concurrent-delivery-not-linearizable",
                    "results of concurrent Decrypt calls on one SessionKey have no linearisation in Session.tla "
                    "(e.g. one payload accepted twice): stuck at event #%d %s" % (chw, ev),
                    {"event_index": chw, "event": ev, "context": cevents[max(0, chw - 16):chw + 4]})
    ctx.evidence("model_checking",
                 assumptions=["ChaCha20-Poly1305 itself is unforgeable (forged frames are produced by byte mutation, "
                              "not by key compromise)",
                              "abstract counter MaxC stands for 2^64-1; honest senders stay below it",
                              "bounded model: MaxC=%d, %d encrypts per endpoint; traces: counters shifted to both ends "
                              "of the 64-bit range" % (maxc, maxmsgs)],
                 states=ideal.distinct, transitions=nedges,
                 traces_validated_against_impl=len(paths) * 2 + summ["traces"] + csumm["traces"],
                 concurrent_decrypt_calls=csumm["calls"], concurrent_accepts=csumm["accepts"],
                 exhaustive=True,
                 replayed_paths=len(paths) * 2, replayed_steps=steps, replay_mismatches=len(mism),
                 trace_events=summ["events"], trace_highwater=hw,
                 deviations_caught=caught,
                 samples=[{"replay_path": [s["a"] for s in paths[len(paths) // 2]["steps"]][:12]},
                          {"trace_events": events[1:6]}])
