# C09 - Domain, forward-key and agent lookups select the documented best route
#
# Interpretation (permissive side):
#  * a pattern "matches" a name when it is exact and equal ignoring letter case, or a wildcard "*.base" and the name
#    is exactly one label followed by ".base" (ignoring case).  If any exact pattern matches, the answer must be a
#    lowest-metric route among the routes of that exact pattern; otherwise a lowest-metric route among the routes
#    of the matching wildcard; nothing exactly when nothing matches.  Ties: any of the tied routes.
#  * forward keys are opaque byte strings (case-SENSITIVE: "web" and "WEB" are different keys - the statement
#    promises case-insensitivity only for domains); agents are compared by id.
#  * names are well-formed (non-empty labels); letter-case variants are lower, UPPER and aLtErNaTiNg.
#  * the real answer is compared with the oracle of the STATEMENT (RouteTable!DomOracle / KeyOracle) on a table
#    whose full content was just compared with the real table; maintenance itself is C10's subject.
import vf, _routetable as R


def run(ctx):
    cfgs = ["dom-lk", "fwd-lk", "agt-lk", "dom-loc"] if ctx.quick() else \
           ["dom-lk", "dom-lkT", "fwd-lk", "agt-lk", "dom-loc", "fwd-loc", "agt-mtT"]
    results, caught = R.model_and_sensitivity(ctx, "C09", cfgs)
    summ, mism, lkmism, tot = R.replay(ctx, results)
    foreign = R.report_replay(ctx, "C09", mism, lkmism)
    ntr, nops, chunks = (40, 250) + (1,) if ctx.quick() else (20, 1000) + (8,)
    tsum, v = R.traces(ctx, "C09", ["dom", "fwd", "agt"], ntr, nops, "c09trace", chunks)
    foreign += R.report_trace(ctx, "C09", v)
    ctx.evidence("model_checking",
                 assumptions=["forward keys are case-sensitive opaque strings, domain names well-formed",
                              "bounded model: patterns {x.com, *.x.com, a.x.com (, *.a.x.com, *.com)}, 8 queried names up "
                              "to 4 labels in 3 letter-case variants, 2 origins, <= 3 entries; forward keys {web, WEB, db}; "
                              "agents {a, c} via 2 next hops; traces use 3 base domains, 20 names, 5 keys, 4 agents",
                              "single-threaded histories (the tables serialise all operations under one lock)"],
                 states=sum(r.distinct for r in results.values()), transitions=tot["edges"],
                 traces_validated_against_impl=sum(s["walks"] for s in summ.values()) + tsum["validated_traces"],
                 exhaustive=all(s["uncovered"] == 0 for s in summ.values()), cfgs={n: {"states": r.distinct, "transitions": r.generated - 1} for n, r in results.items()},
                 replay={n: {k: s[k] for k in ("groups", "uncovered", "edges", "edges_exhibited", "steps", "walks",
                                                "mismatches", "lkmismatches", "lookups")} for n, s in summ.items()},
                 nondeterministic_pairs=tot["nondet_groups"],
                 lookups_checked_in_replay=sum(s["lookups"] for s in summ.values()),
                 trace_events=tsum["events"], trace_events_matched=tsum["highwater_total"], trace_event_counts=tsum["counts"],
                 trace_lookup_hits=tsum["lookup_hits"], trace_lookup_misses=tsum["lookup_misses"],
                 trace_lookup_multi_candidate=tsum["lookup_multi_candidate"],
                 deviations_caught=caught, findings_of_sibling_properties_seen=foreign,
                 samples=[{"replay_walk": summ["dom-lk"]["sample"]}, {"trace_events": tsum["sample"]}])
