# C16 - Concurrent tunnels stay isolated and byte-exact across shared hops
#
# Interpretation (permissive side):
#  * "each endpoint receives exactly the bytes its counterpart sent, in order": for TCP streams and port forwards the
#    byte stream at the target / at the ingress application equals the counterpart's writes, in order; bytes written
#    after the other side closed, or lost with a failed connection, are not demanded.  UDP datagrams and ICMP echoes are
#    unordered by design (fast lane): one datagram is outstanding at a time and must come back unchanged.
#  * "no frame of one tunnel reaches, closes or resets another tunnel": an endpoint of a tunnel that nobody closed and
#    whose path is intact stays open and receives nothing it was not sent.
#  * Waiting for delivery uses generous timeouts; on the in-memory mesh nothing is lost legitimately, so a token that never
#    arrives on an intact path is starvation (a violation), not an infrastructure problem.
#  * ICMP: unprivileged ICMP sockets are unavailable in this sandbox; the exit side of ICMP sessions is a puppet peer
#    (ingress and transit are real); reported as icmp_exit_real in the evidence.
#
# Structure
#  1. TLC: the ideal keying (peer connection + stream id) satisfies Isolation / ByteExact on star, vee and fan-in for
#     every interleaving; the bare-id keying (DevKeyedByStreamIdOnly) is caught per site, DevDataNoPeerCheck is caught.
#  2. The counterexample of every site is replayed frame by frame on real agents: reproduced => the code has the
#     deviation at that site (known finding, repair = re-keying every table).
#  3. The transition relation of the code-faithful configuration (bare ids everywhere) is replayed edge by edge on
#     real agents with a full state comparison after every step: any other behaviour of the code is a violation.
#  4. Operation-level scenarios derived from the TLC behaviours for TCP, port forward, UDP (+ ICMP with puppets).
#  5. Behaviour classes that do not depend on colliding ids (all with skewed allocators, so the ids of the two hops of a
#     tunnel differ):
#     * the transit's data handler as two steps (Split = TRUE: RelayLookup / RelaySend; DevRelayEntryRecycled) - on the
#       real transit the frame loop is stopped at the point "agent.relay.lookup" while the tunnel is closed from the other
#       side and a third peer opens a new tunnel (TestZZVRelayGate);
#     * closes that originate at the exit (ExitExpire; DevCloseUpstreamWrongId): UDP idle expiry at a real exit, ICMP close
#       from a puppet exit, two associations of one ingress alive;
#     * back-pressure (BufCap; DevPushTimeoutDrop): a consumer that stops reading while more frames than the read buffer
#       holds are in flight must still receive every byte.
import vf, _relay as R


def run(ctx):
    q = ctx.quick()
    # ---- 1. model checking ------------------------------------------------------------------------------------
    ideal_insts = [dict(topo="star", ops=("tclose", "rev"), maxf=1, maxr=1),
                   dict(topo="vee", ops=("tclose",), maxf=1, maxr=0),
                   dict(topo="fanin", ops=("tclose",), maxf=1, maxr=0)]
    if not q:
        ideal_insts += [dict(topo="fork", ops=("tclose", "rev"), maxf=1, maxr=1),
                        dict(topo="fanin", ops=("tclose", "rev", "fail"), maxf=1, maxr=1),
                        dict(topo="chain", ntun=3, ops=(), maxf=1, maxr=0)]
    inv16 = "TypeOK Isolation ByteExact"
    site_cfg = {"ingress": dict(topo="star", ops=("rev",), maxf=0, maxr=1, invs="ByteExact"),
                "relay": dict(topo="fanin", ops=(), maxf=1, maxr=0, invs="NoStarve"),
                "exit": dict(topo="vee", ops=(), maxf=1, maxr=0, invs="NoMisroute")}
    thunks = []
    for i, inst in enumerate(ideal_insts):
        thunks.append(lambda i=i, inst=inst: R.tlc(ctx, "ideal%d" % i, R.cfg(
            inst["topo"], inst.get("ntun", 2), ops=inst["ops"], maxf=inst["maxf"], maxr=inst["maxr"], invs=inv16 + " IndexConsistent"),
            workers=2 if q else 4, timeout=1500))
    for site, c in site_cfg.items():
        thunks.append(lambda site=site, c=c: R.deviation(ctx, "sid_" + site, c["topo"], keying="sid", sites=[site], ops=c["ops"],
                                                         maxf=c["maxf"], maxr=c["maxr"], invs=c["invs"]))
    thunks.append(lambda: R.deviation(ctx, "nopeercheck", "chain", dev=["DevDataNoPeerCheck"], ntun=1, ops=("rev",), maxf=1, maxr=1,
                                      invs=inv16))
    # classes without colliding ids: two-step relay handler, exit-originated close, back-pressure
    U3 = ("udp", "icmp", "udp")
    ext_ideal = {"split": dict(topo="fork", ops=("tclose",), maxf=1, maxr=0, split=True),
                 "exitclose": dict(topo="chain", kinds=U3, ops=("xexpire",), maxf=0, maxr=0, burn=["T>X"]),
                 "backpressure": dict(topo="chain", ntun=1, ops=("rev", "tclose"), maxf=0, maxr=3, bufcap=1)}
    ext_dev = {"DevRelayEntryRecycled": dict(ext_ideal["split"], dev=["DevRelayEntryRecycled"]),
               "DevCloseUpstreamWrongId": dict(ext_ideal["exitclose"], dev=["DevCloseUpstreamWrongId"]),
               "DevPushTimeoutDrop": dict(ext_ideal["backpressure"], dev=["DevPushTimeoutDrop"])}
    if not q:
        ext_ideal["split"] = dict(topo="fork", ops=("tclose", "rev"), maxf=1, maxr=1, split=True)
        ext_ideal["exitclose"] = dict(topo="chain", ntun=3, kinds=U3, ops=("xexpire",), maxf=0, maxr=0, burn=["T>X"])
        ext_ideal["backpressure"] = dict(topo="chain", ntun=2, ops=("rev",), maxf=0, maxr=2, bufcap=1)

    def ext_cfg(c, invs):
        c = dict(c)
        return R.cfg(c.pop("topo"), c.pop("ntun", 2), c.pop("kinds", ("tcp",) * 3), invs=invs, **c)
    for name, c in ext_ideal.items():
        thunks.append(lambda name=name, c=c: R.tlc(ctx, "ideal_" + name, ext_cfg(c, inv16 + " IndexConsistent"), workers=2 if q else 4,
                                                   timeout=1500))
    for name, c in ext_dev.items():
        thunks.append(lambda name=name, c=c: R.tlc(ctx, name, ext_cfg(c, inv16), expect_violation=True))
    rel_specs = [("star", "tcp", dict(ops=(), maxf=1, maxr=0)), ("fanin", "tcp", dict(ops=(), maxf=1, maxr=0))]
    if not q:
        rel_specs = [("star", "tcp", dict(ops=("tclose",), maxf=1, maxr=0)), ("fanin", "tcp", dict(ops=(), maxf=1, maxr=0)),
                     ("vee", "forward", dict(ops=(), maxf=1, maxr=0)), ("fork", "tcp", dict(ops=(), maxf=1, maxr=0))]
    for topo, variant, c in rel_specs:
        thunks.append(lambda topo=topo, c=c: R.relation(ctx, "rel_" + topo, topo, **c))
    res = R.parallel(thunks)
    n_i, n_s, n_e = len(ideal_insts), len(site_cfg), len(ext_ideal)
    ideals, sids, nopeer = res[:n_i], dict(zip(site_cfg, res[n_i:n_i + n_s])), res[n_i + n_s]
    k = n_i + n_s + 1
    xideals, xdevs, rels = res[k:k + n_e], dict(zip(ext_dev, res[k + n_e:k + 2 * n_e])), res[k + 2 * n_e:]
    for (name, c), r in zip(ext_ideal.items(), xideals):
        if r.violated:
            raise vf.Infra("ideal Relay spec (%s) violates %s (specification error)" % (name, r.violated))
        ideal_insts.append(dict(c, name=name))
    ideals = ideals + xideals
    for d, r in xdevs.items():
        if not r.violated:
            raise vf.Infra("deviation %s not detected by the invariants (vacuous model)" % d)
    for inst, r in zip(ideal_insts, ideals):
        if r.violated:
            raise vf.Infra("ideal Relay spec violates %s on %s (specification error)" % (r.violated, inst))
    caught = {"DevKeyedByStreamIdOnly@" + s: r.violated for s, r in sids.items()}
    caught["DevDataNoPeerCheck"] = nopeer.violated
    caught.update({d: r.violated for d, r in xdevs.items()})

    # ---- 2. + 3. frame-level replay on real agents ------------------------------------------------------------------
    jobs = []
    cex = {}
    for site, r in sids.items():
        path = R.cex_path(r)
        if not path:
            raise vf.Infra("no counterexample trace for site %s" % site)
        for variant in (("tcp", "forward") if site == "exit" else ("tcp",)):
            name = "cex_%s_%s" % (site, variant)
            cex[name] = (site, variant, path)
            jobs.append(R.job(name, site_cfg[site]["topo"], variant, paths=[path], patience_ms=3000))
    for (topo, variant, c), r in zip(rel_specs, rels):
        # fan-in / chain have one downstream connection: using up one of its ids makes the ids of the two hops of every
        # tunnel differ without changing which ids coincide
        jobs.append(R.job("rel_%s_%s" % (topo, variant), topo, variant, edges=r.edges,
                          burn=[("T", "X")] if topo in ("fanin", "chain") else ()))
        if topo == "fanin" and not q:
            # also with the allocators in lock step (up id = down id): other numeric coincidences between the indices
            jobs.append(R.job("rel_fanin_%s_lockstep" % variant, topo, variant, edges=r.edges))
    # ---- 4. operation-level scenarios --------------------------------------------------------------------------------
    scs = []
    for site, r in sids.items():
        ops = R.tail_ops(2, R.ops_of([s["a"] for s in R.cex_path(r)["steps"]]))
        for kind in ("tcp", "forward", "udp"):
            scs.append(R.scenario("%s-%s" % (site, kind), site_cfg[site]["topo"], kind, ops, idle_ms=0, no_leak=True))
    # chain with skewed ids (tunnel 1: 1 / 3, tunnel 2: 3 / 5): both tunnels are ended by their targets, the later one first,
    # so closes travel exit -> ingress and the application's own close of tunnel 2 (id 3 from A) arrives at the transit while
    # tunnel 1 still uses 3 as its downstream id: a close must be matched with the peer it came from
    chain_ops = [{"op": "burn", "a": "T", "p": "X"}] + [{"op": k, "t": t} for k, t in (
        ("open", 1), ("send", 1), ("open", 2), ("send", 2), ("rsend", 1), ("rsend", 2), ("tclose", 2), ("send", 1), ("rsend", 1),
        ("tclose", 1))]
    for kind in ("tcp", "forward", "udp"):
        scs.append(R.scenario("chain-%s" % kind, "chain", kind, chain_ops, idle_ms=0, no_leak=True))
    # exit-originated close (UDP idle expiry at the exit) with two associations of one ingress and skewed ids; slow reader
    B = {"op": "burn", "a": "T", "p": "X"}
    o = lambda k, t, **kw: dict({"op": k, "t": t}, **kw)
    scs.append(R.scenario("exit-expiry-udp", "chain", "udp", [B, o("open", 1), o("open", 2), o("send", 1), o("send", 2), o("xidle", 1),
                                                              o("send", 2), o("close", 2)], idle_ms=400, no_leak=True))
    stall = dict(n=80, ms=2600) if q else dict(n=200, ms=5000)
    for kind in (("tcp",) if q else ("tcp", "forward")):
        scs.append(R.scenario("slow-reader-%s" % kind, "chain", kind,
                              [B, o("open", 1), o("open", 2), o("rsend", 1), o("stall", 1, **stall), o("rsend", 1), o("send", 2),
                               o("rsend", 2), o("close", 1), o("close", 2)], idle_ms=0, no_leak=True))
    if not q:
        scs += sim_scenarios(ctx)
    out, recs, icmp = R.run_all(ctx, jobs, scs, extra=["Gate"])
    gate = ctx.relay_extra["Gate"]
    reproduced = {}
    for name, (site, variant, path) in cex.items():
        o = out.pop(name)
        if any(m.get("infra") for m in o["mismatches"]):
            raise vf.Infra("counterexample replay %s could not be driven: %s" % (name, o["mismatches"][0]["diff"]))
        reproduced[name] = not o["mismatches"]
        if not o["mismatches"]:
            last = path["steps"][-1]
            ctx.finding("Relay:DevKeyedByStreamIdOnly:" + R.SITE_KEY[(site, variant)],
                        "real agents follow the TLC counterexample of bare-stream-id keying at the %s (%s, %s): after %d steps "
                        "%s violates %s (%s)" % (site, site_cfg[site]["topo"], variant, len(path["steps"]), last["a"],
                                                 site_cfg[site]["invs"], ",".join(last["viol"])),
                        {"site": site, "variant": variant, "actions": [s["a"] for s in path["steps"]]})
    nmis = R.report_replay(ctx, out)

    nfail = R.report_scenarios(ctx, recs, R.C16_KINDS)
    nfail += R.report_icmp(ctx, icmp, R.C16_KINDS)
    for f in gate.get("fails") or []:
        nfail += 1
        ctx.finding("Relay:unexplained:%s:%s:two-step-relay" % (f["scenario"], f["what"]),
                    "fork A,B-T-X,Y, distinct stream ids %s: the transit was stopped between looking the relay entry of tunnel 1 up and "
                    "using it; tunnel 1 was closed from the exit side and a third peer opened tunnel 2: %s" % (f.get("sids"), f["detail"]), f)

    rel_paths = sum(o["paths"] for o in out.values())
    ctx.evidence("model_checking",
                 assumptions=["bounded model: 2 concurrent tunnels (3 on the chain in the thorough tier), at most one data frame per "
                              "direction, every agent in one role, one connection per pair without reconnect, a link failure is atomic",
                              "the application-level stream ids the allocators hand out are compared up to a renaming learned "
                              "from the OPEN frames",
                              "ICMP exit handler not exercised when unprivileged ICMP sockets are unavailable (puppet exit instead): "
                              "icmp_exit_real=%s" % icmp.get("icmp_exit_real"),
                              "UDP / ICMP: one datagram outstanding at a time (delivery order is not part of the protocol)"],
                 states=sum(r.distinct for r in ideals), transitions=sum(r.generated for r in ideals),
                 traces_validated_against_impl=rel_paths + len(cex) + len(recs) + 4 + (gate.get("gate_reached") or 0),
                 exhaustive=True,
                 ideal_instances=[dict(inst, states=r.distinct, transitions=r.generated) for inst, r in zip(ideal_insts, ideals)],
                 deviations_caught=caught, counterexamples_reproduced_on_code=reproduced,
                 relation_edges={n: o["edges"] for n, o in out.items()}, replayed_paths=rel_paths,
                 replayed_steps=sum(o["steps"] for o in out.values()), replay_mismatches=nmis,
                 scenarios=len(recs), scenario_failures=nfail, icmp_scenarios=4, icmp_exit_real=icmp.get("icmp_exit_real"),
                 two_step_relay_rounds=gate.get("rounds"), two_step_relay_gate_reached=gate.get("gate_reached"),
                 two_step_relay_gate_via=ctx.relay_extra.get("gate_via"), notes=[n.get("note") for n in ctx.relay_notes],
                 samples=[{"replay_path": next(iter(out.values()))["sample"]},
                          {"counterexample_ingress": [s["a"] for s in cex["cex_ingress_tcp"][2]["steps"]]},
                          {"scenario": scs[0]["ops"][:10]}])


def sim_scenarios(ctx, n=40, depth=40):
    """thorough: operation-level histories taken from TLC simulation of the ideal spec."""
    scs = []
    for topo, ntun in (("star", 2), ("fanin", 3), ("fork", 3), ("vee", 2)):
        r = R.tlc(ctx, "sim_" + topo, R.cfg(topo, ntun, ops=("tclose", "rev", "reset", "fail"), maxf=2, maxr=2, emit=True,
                                             invs="Isolation ByteExact"), simulate="num=%d" % n, depth=depth, workers=1)
        if r.violated:
            raise vf.Infra("ideal Relay spec violates %s in simulation (%s)" % (r.violated, topo))
        beh, cur = [], []
        for e in r.edges:
            if R.is_init(e["s"]) and cur:
                beh.append(cur)
                cur = []
            cur.append(e["a"])
        if cur:
            beh.append(cur)
        picks = beh if len(beh) <= 6 else ctx.rng.sample(beh, 6)
        for i, acts in enumerate(picks):
            ops = R.tail_ops(ntun, R.ops_of(acts))
            for kind in ("tcp", "forward", "udp"):
                scs.append(R.scenario("sim-%s-%d-%s" % (topo, i, kind), topo, kind, ops, ntun=ntun, idle_ms=0, no_leak=True))
    return scs
