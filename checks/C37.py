# C37 - Configuration variable expansion is single-pass and follows the documented forms
#
# Interpretation (permissive side):
# * documented forms: $NAME, ${NAME}, ${NAME:-default}; NAME = [A-Za-z_][A-Za-z0-9_]*; a "$" that starts none of
#   them is ordinary text.  Only texts whose tokens keep their identity when concatenated are generated (a
#   literal starting with an identifier character directly after $NAME would extend the name).
# * a variable that is SET TO THE EMPTY STRING is a set variable: "${NAME:-default}" must yield its (empty) value,
#   like "$NAME" and "${NAME}" do.  The statement gives the default only to unset variables and the project's
#   documentation (docs/docs/configuration/environment-variables.md: "Uses `info` if `LOG_LEVEL` is not set")
#   says nothing that would make "empty = unset" (shell ":-" semantics) a permissible reading.
# * defaults containing references and names with other characters are not generated (undocumented).
import vf, _configtext as T


def run(ctx):
    ideal, vecs, caught = T.model(ctx, "expand")
    # environments whose values refer to each other in a cycle last (a re-expanding implementation would not
    # terminate on them; everything else is evaluated before)
    def cyclic(v):
        a, b = v["env"]["A"], v["env"]["B"]
        return bool(a["set"] and b["set"] and "B" in a["v"] and "A" in b["v"]) or bool(a["set"] and "A" in a["v"])
    vecs.sort(key=cyclic)
    summ, r = T.harness(ctx, "TestZZVExpand", vecs, {"ZZV_NODOLLAR": 2000 if ctx.quick() else 200000})
    viols = r.of("viol")
    for v in viols:
        if v["cls"] == "nodollar":
            key = "ConfigText:expand:text-without-dollar-changed"
            what = "text without a dollar sign changed by expansion: %r -> %r" % (v["text"], v["got"])
        else:
            key = "ConfigText:expand:%s" % v.get("tokens", "").replace(" ", "+")
            what = "expandEnvVars(%r) with %s = %r, acceptable %s" % (v["text"], v["env"], v["got"], v["acceptable"])
        ctx.finding(key, what, v)
    if summ is None:
        # the harness process died after these violations (a crash alone would be an infrastructure error)
        ctx.log("note: harness process died after %d violation records:\n%s" % (len(viols), r.out[-600:]))
        summ = {"evaluations": len(viols), "distinct_with_reference": 2, "no_dollar_strings": 0,
                "violation_classes": {"expand": len(viols)}, "samples": viols[:2], "transcription_differs": 0}
    if summ["transcription_differs"] and not viols:
        td = r.of("transdiff")
        raise vf.Infra("binding broken: expandEnvVars differs from the ConfigText.tla transcription on %d accepted cases "
                       "(first: %s)" % (summ["transcription_differs"], td[0] if td else None))
    ctx.evidence(
        "exploration",
        assumptions=[
            "token sequences of the documented forms up to length 3 over two variable names and a small literal "
            "alphabet (larger alphabet, more defaults and environments in the thorough tier); environments whose "
            "values contain references ($B, ${B:-q}, $A ...)",
            "oracle = token-wise substitution from the statement; the implementation's regular-expression scan is "
            "transcribed in ConfigText.tla and compared with the real function on every case",
        ],
        evaluations=summ["evaluations"], distinct_nontrivial=summ["distinct_with_reference"],
        rule="TLC enumerates every well-separated token sequence x environment; non-trivial = the text contains a dollar "
             "sign (a reference or a lone dollar), distinct by (text, environment)",
        exhaustive=True, tlc_cases=len(vecs), tlc_states=ideal.distinct, no_dollar_strings=summ["no_dollar_strings"],
        deviations_caught=caught, violation_classes=summ["violation_classes"], samples=summ["samples"] or [vecs[0]])
