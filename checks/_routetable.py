# RouteTable.tla <-> internal/routing (Table, DomainTable, ForwardTable, AgentTable, Manager)   C08 C09 C10
#
# Shared machinery of the three checks:
#   model()        TLC on bounded instances (spec/MCRouteTable.tla names the universes, CFGS below the constants)
#   sensitivity()  every deviation relevant to the property must be caught by TLC
#   replay()       spec -> code: the transition graph (EDGE) and the per-state acceptable lookup answers (LK) are
#                  handed to the Go harness, which WALKS the graph on a real routing.Manager (it chooses uncovered
#                  (state, action) pairs itself and locates the state it landed in among the spec's successors:
#                  the agent table's RemoveRoute is nondeterministic on metric ties, so a precomputed path could
#                  not be followed).  Helper kept here instead of lib/vf.py: build_graph().
#   traces()       code -> spec: seeded random histories with lookups as events, validated by TraceRouteTable.tla
import os, json
import vf

HFILES = ["common/common_test.go.tmpl", "routing/routetable_test.go"]
INVS = "TypeOK SlotUnique NoLoopStored LocalShape LookupCidrOK LookupDomOK LookupKeyOK"
PROPS = "ReplaceRule DisconnectExact CleanupKeepsLocal CleanupExact RejectedChangesNothing AcceptedIsStored"

# deviation -> (property it belongs to, table used for the sensitivity run)
DEVS = {
    "DevLookupAnyPrefix": ("C08", "cidr"), "DevLookupIgnoreMetric": ("C08", "cidr"),
    "DevWildcardDeep": ("C09", "dom"), "DevWildcardFirst": ("C09", "dom"), "DevCaseSensitive": ("C09", "dom"),
    "DevKeyIgnoreMetric": ("C09", "fwd"),
    "DevReplaceEqual": ("C10", "cidr"), "DevReplaceOlder": ("C10", "fwd"), "DevStoreLoop": ("C10", "dom"),
    "DevDisconnectByOrigin": ("C10", "cidr"), "DevDisconnectWholeKey": ("C10", "agt"),
    "DevCleanupLocal": ("C10", "cidr"), "DevAgentSlotNoNextHop": ("C10", "agt"),
}


def S(xs):
    return "{" + ",".join(('"%s"' % x) if isinstance(x, str) else str(x) for x in xs) + "}"


BASE = dict(Tables=["cidr"], CidrKeys="None", DomKeys="None", FwdKeys=[], AgtKeys=[], CidrQ="None", DomQ="None",
            Orig=["a", "p"], Peer=["p", "q"], Metrics=[0, 1], Seqs=[0, 1], PathKinds=["clean", "loop"], CaseVars=[0],
            LocalMetrics=[0], MaxLSeq=0, MaxEntries=2, Aging=True)


def C(**kw):
    d = dict(BASE)
    d.update(kw)
    return d


# name -> constants.  "lk" = lookup-centred (many keys, few maintenance parameters), "mt" = maintenance-centred
CFGS = {
    # ---- quick
    "cidr-lk": C(Tables=["cidr"], CidrKeys="K_cidr_lk", CidrQ="Q_cidr", Orig=["a", "b"], Peer=["p"], Seqs=[0],
                 PathKinds=["clean"], MaxEntries=3, Aging=False),
    "dom-lk": C(Tables=["dom"], DomKeys="K_dom_lk", DomQ="Q_dom", Orig=["a", "b"], Peer=["p"], Seqs=[0],
                PathKinds=["clean"], CaseVars=[0, 1], MaxEntries=2, Aging=False),
    "fwd-lk": C(Tables=["fwd"], FwdKeys=["web", "WEB", "db"], Orig=["a", "b"], Peer=["p"], Seqs=[0],
                PathKinds=["clean"], MaxEntries=3, Aging=False),
    "agt-lk": C(Tables=["agt"], AgtKeys=["a", "c"], Orig=["a", "c"], Peer=["p", "q"], Seqs=[0],
                PathKinds=["clean"], MaxEntries=3, Aging=False),
    "cidr-mt": C(Tables=["cidr"], CidrKeys="K_cidr_mt", CidrQ="Q_cidr", PathKinds=["clean", "loop", "none"]),
    "dom-mt": C(Tables=["dom"], DomKeys="K_dom_mt", DomQ="Q_dom", Orig=["a"]),
    "fwd-mt": C(Tables=["fwd"], FwdKeys=["web"]),
    "agt-mt": C(Tables=["agt"], AgtKeys=["a"], Orig=["a"], MaxEntries=2),
    "cidr-loc": C(Tables=["cidr"], CidrKeys="K_cidr_mtT", CidrQ="Q_cidr", Orig=["a"], Peer=["p"], Metrics=[0], Seqs=[1],
                  PathKinds=["clean"], LocalMetrics=[0, 2], MaxLSeq=2, MaxEntries=2),
    "dom-loc": C(Tables=["dom"], DomKeys="K_dom_mt", DomQ="Q_dom", Orig=["a"], Peer=["p"], Metrics=[0], Seqs=[1],
                 PathKinds=["clean"], CaseVars=[0, 1], LocalMetrics=[0, 2], MaxLSeq=2, MaxEntries=2),
    "fwd-loc": C(Tables=["fwd"], FwdKeys=["web", "WEB"], Orig=["a"], Peer=["p"], Metrics=[0], Seqs=[1],
                 PathKinds=["clean"], LocalMetrics=[0, 2], MaxLSeq=2, MaxEntries=2),
}


def cfg_text(c, dev=(), emit=True, check=True):
    lines = ["CONSTANTS"]
    for k in ("Tables", "FwdKeys", "AgtKeys", "Orig", "Peer", "Metrics", "Seqs", "PathKinds", "CaseVars", "LocalMetrics"):
        lines.append(" %s = %s" % (k, S(c[k])))
    for k in ("CidrKeys", "DomKeys", "CidrQ", "DomQ"):
        lines.append(" %s <- %s" % (k, c[k]))
    lines.append(" MaxLSeq = %d MaxEntries = %d Aging = %s" % (c["MaxLSeq"], c["MaxEntries"], "TRUE" if c["Aging"] else "FALSE"))
    lines.append(" Dev = %s Emit = %s" % (S(dev), "TRUE" if emit else "FALSE"))
    lines += ["INIT Init", "NEXT Next", "VIEW view"]
    if emit:
        lines.append("ACTION_CONSTRAINT EmitEdge")
    if check:
        lines.append("INVARIANTS " + INVS + (" EmitAnswers" if emit else ""))
        lines.append("PROPERTIES " + PROPS)
    elif emit:
        lines.append("INVARIANTS EmitAnswers")
    return "\n".join(lines) + "\n"


def run_cfg(ctx, name, dev=(), emit=True, expect_violation=False):
    c = CFGS[name]
    return ctx.tlc("MCRouteTable", "MC-%s.cfg" % name, files={"MC-%s.cfg" % name: cfg_text(c, dev, emit)},
                   expect_violation=expect_violation, name="RouteTable-" + name, workers=4)
