# RouteTable.tla <-> internal/routing (Table, DomainTable, ForwardTable, AgentTable, Manager)   C08 C09 C10
#
# Shared machinery of the three checks:
#   model_and_sensitivity()  TLC on bounded instances (spec/MCRouteTable.tla names the universes, CFGS below gives
#                  the constants): the ideal spec must hold, every deviation of the property must be caught.  The
#                  independent TLC instances run concurrently (run_many: local helper, same rules as ctx.tlc).
#   replay()       spec -> code: the transition graph (EDGE) and the per-state acceptable lookup answers (LK) are
#                  handed to the Go harness, which WALKS the graph on a real routing.Manager (it chooses uncovered
#                  (state, action) pairs itself and locates the state it landed in among the spec's successors:
#                  the agent table's RemoveRoute is nondeterministic on metric ties, so a precomputed path could
#                  not be followed).  Helper kept here instead of lib/vf.py: build_graph().
#   traces()       code -> spec: seeded random histories with lookups as events, validated by TraceRouteTable.tla
import os, json, glob, shutil, subprocess, time
import vf

HFILES = ["common/common_test.go.tmpl", "routing/routetable_test.go"]
INVS = "TypeOK SlotUnique NoLoopStored LocalShape LookupCidrOK LookupDomOK LookupKeyOK"
PROPS = "ReplaceRule DisconnectExact CleanupKeepsLocal CleanupExact RejectedChangesNothing AcceptedIsStored"

# deviation -> (property it belongs to, table used for the sensitivity run)
DEVS = {
    "DevLookupAnyPrefix": ("C08", "cidr"), "DevLookupIgnoreMetric": ("C08", "cidr"),
    "DevWildcardDeep": ("C09", "dom"), "DevWildcardFirst": ("C09", "dom"), "DevCaseSensitive": ("C09", "dom"),
    "DevKeyIgnoreMetric": ("C09", "fwd"),
    "DevReplaceEqual": ("C10", "cidr"), "DevReplaceOlder": ("C10", "fwd"), "DevStoreLoop": ("C10", "dom"),
    "DevDisconnectByOrigin": ("C10", "cidr"), "DevDisconnectWholeKey": ("C10", "agt"),
    "DevCleanupLocal": ("C10", "cidr"), "DevAgentSlotNoNextHop": ("C10", "agt"),
}


def S(xs):
    return "{" + ",".join(('"%s"' % x) if isinstance(x, str) else str(x) for x in xs) + "}"


BASE = dict(Tables=["cidr"], CidrKeys="None", DomKeys="None", FwdKeys=[], AgtKeys=[], CidrQ="None", DomQ="None",
            Orig=["a", "p"], Peer=["p", "q"], Metrics=[0, 1], Seqs=[0, 1], PathKinds=["clean", "loop"], CaseVars=[0],
            LocalMetrics=[0], MaxLSeq=0, MaxEntries=2, Aging=True)


def C(**kw):
    d = dict(BASE)
    d.update(kw)
    return d


# name -> constants.  "lk" = lookup-centred (many keys, few maintenance parameters), "mt" = maintenance-centred
CFGS = {
    # ---- quick
    "cidr-lk": C(Tables=["cidr"], CidrKeys="K_cidr_lk", CidrQ="Q_cidr", Orig=["a", "b"], Peer=["p"], Seqs=[0],
                 PathKinds=["clean"], MaxEntries=3, Aging=False),
    "dom-lk": C(Tables=["dom"], DomKeys="K_dom_lk", DomQ="Q_dom", Orig=["a", "b"], Peer=["p"], Seqs=[0],
                PathKinds=["clean"], CaseVars=[0, 1], MaxEntries=2, Aging=False),
    "fwd-lk": C(Tables=["fwd"], FwdKeys=["web", "WEB", "db"], Orig=["a", "b"], Peer=["p"], Seqs=[0],
                PathKinds=["clean"], MaxEntries=3, Aging=False),
    "agt-lk": C(Tables=["agt"], AgtKeys=["a", "c"], Orig=["a", "c"], Peer=["p", "q"], Seqs=[0],
                PathKinds=["clean"], MaxEntries=3, Aging=False),
    "cidr-mt": C(Tables=["cidr"], CidrKeys="K_cidr_mt", CidrQ="Q_cidr", PathKinds=["clean", "loop", "none"]),
    "dom-mt": C(Tables=["dom"], DomKeys="K_dom_mtW", DomQ="Q_dom"),   # (the exact map with two routes per key: dom-loc)
    "fwd-mt": C(Tables=["fwd"], FwdKeys=["web"]),
    "agt-mt": C(Tables=["agt"], AgtKeys=["a"], Orig=["a"], MaxEntries=2),
    "cidr-loc": C(Tables=["cidr"], CidrKeys="K_cidr_mtT", CidrQ="Q_cidr", Orig=["a"], Peer=["p"], Metrics=[0], Seqs=[1],
                  PathKinds=["clean"], LocalMetrics=[0, 2], MaxLSeq=2, MaxEntries=2),
    "dom-loc": C(Tables=["dom"], DomKeys="K_dom_mt", DomQ="Q_dom", Orig=["a"], Peer=["p"], Metrics=[0], Seqs=[1],
                 PathKinds=["clean"], CaseVars=[0, 1], LocalMetrics=[0], MaxLSeq=2, MaxEntries=2),
    # ---- thorough
    "cidr-lkT": C(Tables=["cidr"], CidrKeys="K_cidr_lkT", CidrQ="Q_cidr", Orig=["a", "b"], Peer=["p"], Seqs=[0],
                  PathKinds=["clean"], MaxEntries=3, Aging=False),
    "dom-lkT": C(Tables=["dom"], DomKeys="K_dom_lkT", DomQ="Q_dom", Orig=["a", "b"], Peer=["p"], Seqs=[0],
                 PathKinds=["clean"], CaseVars=[0], MaxEntries=3, Aging=False),
    "cidr-mtT": C(Tables=["cidr"], CidrKeys="K_cidr_mtT", CidrQ="Q_cidr", PathKinds=["clean", "loop", "none"]),
    "dom-mtT": C(Tables=["dom"], DomKeys="K_dom_mt", DomQ="Q_dom"),
    "fwd-mtT": C(Tables=["fwd"], FwdKeys=["web", "WEB"]),
    "agt-mtT": C(Tables=["agt"], AgtKeys=["a"], Orig=["a", "c"], MaxEntries=2),
    "cidr-locT": C(Tables=["cidr"], CidrKeys="K_cidr_mt", CidrQ="Q_cidr", Orig=["a", "L"], Peer=["p"], Metrics=[0], Seqs=[1, 2],
                   PathKinds=["clean", "none"], LocalMetrics=[0, 2], MaxLSeq=3, MaxEntries=2),
    "fwd-loc": C(Tables=["fwd"], FwdKeys=["web", "WEB"], Orig=["a"], Peer=["p"], Metrics=[0], Seqs=[1],
                 PathKinds=["clean"], LocalMetrics=[0, 2], MaxLSeq=2, MaxEntries=2),
}


def cfg_text(c, dev=(), emit=True, check=True):
    lines = ["CONSTANTS"]
    for k in ("Tables", "FwdKeys", "AgtKeys", "Orig", "Peer", "Metrics", "Seqs", "PathKinds", "CaseVars", "LocalMetrics"):
        lines.append(" %s = %s" % (k, S(c[k])))
    for k in ("CidrKeys", "DomKeys", "CidrQ", "DomQ"):
        lines.append(" %s <- %s" % (k, c[k]))
    lines.append(" MaxLSeq = %d MaxEntries = %d Aging = %s" % (c["MaxLSeq"], c["MaxEntries"], "TRUE" if c["Aging"] else "FALSE"))
    lines.append(" Dev = %s Emit = %s" % (S(dev), "TRUE" if emit else "FALSE"))
    lines += ["INIT Init", "NEXT Next", "VIEW view"]
    if emit:
        lines.append("ACTION_CONSTRAINT EmitEdge")
    if check:
        lines.append("INVARIANTS " + INVS + (" EmitAnswers" if emit else ""))
        lines.append("PROPERTIES " + PROPS)
    elif emit:
        lines.append("INVARIANTS EmitAnswers")
    return "\n".join(lines) + "\n"


def run_cfg(ctx, name, dev=(), emit=True, expect_violation=False):
    c = CFGS[name]
    return ctx.tlc("MCRouteTable", "MC-%s.cfg" % name, files={"MC-%s.cfg" % name: cfg_text(c, dev, emit)},
                   expect_violation=expect_violation, name="RouteTable-" + name, workers=4)


PROPS += " AdvertKeepsOthers"

# cfg used to show that TLC catches a deviation
DEVCFG = {"DevLookupAnyPrefix": "cidr-lk", "DevLookupIgnoreMetric": "cidr-lk", "DevWildcardDeep": "dom-lk",
          "DevWildcardFirst": "dom-lk", "DevCaseSensitive": "dom-lk", "DevKeyIgnoreMetric": "fwd-lk",
          "DevReplaceEqual": "cidr-mt", "DevReplaceOlder": "fwd-mt", "DevStoreLoop": "dom-mt",
          "DevDisconnectByOrigin": "cidr-mt", "DevDisconnectWholeKey": "agt-mt", "DevCleanupLocal": "fwd-loc",
          "DevAgentSlotNoNextHop": "agt-mt"}


def run_many(ctx, jobs, par=None, timeout=1800):
    """Run several TLC instances concurrently (the bounded instances are independent and JVM start-up dominates the
    small ones).  jobs: list of (cfg name, dev list, emit, expect_violation).  Returns the TLCResults in order.
    Local helper (lib/vf.py's ctx.tlc runs one instance at a time); same scratch layout, parser and error rules."""
    procs, results = [], [None] * len(jobs)
    pending = list(enumerate(jobs))
    running = []
    t0 = time.time()
    workers = 2 if ctx.quick() else 4
    par = par or (16 if ctx.quick() else 5)

    def start(i, job):
        name, dev, emit, _ = job
        d = ctx.scratch("tlcp-%d-%s" % (i, name))
        for f in glob.glob(os.path.join(vf.SPEC, "*")):
            if os.path.isfile(f):
                shutil.copy(f, d)
        with open(os.path.join(d, "MC.cfg"), "w") as f:
            f.write(cfg_text(CFGS[name], dev, emit))
        cmd = ["java", "-XX:+UseParallelGC", "-Xss64m", "-Xmx3g", "-cp", vf.TLA_CP, "tlc2.TLC", "-config", "MC.cfg",
               "-metadir", os.path.join(d, "states"), "-workers", str(workers), "-noGenerateSpecTE", "-deadlock",
               "MCRouteTable.tla"]
        e = dict(os.environ)
        e.pop("JAVA_TOOL_OPTIONS", None)
        out = open(os.path.join(d, "tlc.out"), "w")
        return (i, job, subprocess.Popen(cmd, cwd=d, env=e, stdout=out, stderr=subprocess.STDOUT), out, time.time(), d)

    while pending or running:
        while pending and len(running) < par:
            i, job = pending.pop(0)
            running.append(start(i, job))
        time.sleep(0.2)
        still = []
        for (i, job, p, out, t, d) in running:
            if p.poll() is None:
                if time.time() - t > timeout:
                    p.kill()
                    raise vf.Infra("TLC timeout on RouteTable/%s" % job[0])
                still.append((i, job, p, out, t, d))
                continue
            out.close()
            with open(os.path.join(d, "tlc.out"), errors="replace") as f:
                text = f.read()
            res = vf.TLCResult()
            res.rc, res.out, res.wall = p.returncode, text, time.time() - t
            vf.parse_tlc_output(text, res)
            name, dev, emit, expect = job
            bad = [pat for pat in ("Parsing or semantic analysis failed", "java.lang.OutOfMemoryError", "StackOverflowError",
                                   "TLC threw an unexpected exception", "Error: TLC encountered", "was not found",
                                   "Error: Evaluating", "Error: The configuration file", "Error: In evaluation",
                                   "Error: Attempted to", "Error: TLC was unable", "Unknown operator", "Error: Parsing")
                   if pat in text]
            if (bad and res.violated is None) or (not res.ok and res.violated is None):
                ctx._keep_log(d, text, "RouteTable-" + name)
                raise vf.Infra("TLC failure on RouteTable/%s %s:\n%s" % (name, bad, "\n".join(text.splitlines()[-30:])))
            ctx.log("TLC RouteTable/%s%s: %d generated, %d distinct, %d edges, %.1fs%s" % (
                name, (" Dev=" + ",".join(dev)) if dev else "", res.generated, res.distinct, len(res.edges), res.wall,
                (" VIOLATED " + str(res.violated)) if res.violated else ""))
            if res.violated and not expect:
                ctx._keep_log(d, text, "RouteTable-" + name)
            results[i] = res
        running = still
    ctx.log("%d TLC runs in %.1fs" % (len(jobs), time.time() - t0))
    return results


def model_and_sensitivity(ctx, pid, names):
    """TLC: the ideal spec holds on every named cfg (exhaustive, with edge + answer emission) and every deviation
    that belongs to the property is caught.  Returns ({cfg: result}, {deviation: violated property})."""
    devs = [d for d, (p, _) in sorted(DEVS.items()) if p == pid]
    jobs = [(n, [], True, False) for n in names] + [(DEVCFG[d], [d], False, True) for d in devs]
    res = run_many(ctx, jobs)
    results, caught = {}, {}
    for n, r in zip(names, res):
        if r.violated:
            raise vf.Infra("ideal RouteTable spec violates %s on cfg %s (specification error)" % (r.violated, n))
        results[n] = r
    for d, r in zip(devs, res[len(names):]):
        if not r.violated:
            raise vf.Infra("deviation %s is not detected by the invariants/properties (vacuous model)" % d)
        caught[d] = r.violated
    return results, caught


def build_graph(name, res):
    """EDGE + LK records of one TLC run -> the graph structure the Go walker reads."""
    c = CFGS[name]
    ids, nodes = {}, []

    def nid(s):
        k = vf.canon(s)
        if k not in ids:
            ids[k] = len(nodes)
            nodes.append(s)
        return ids[k]

    groups = {}
    for e in res.edges:
        s, t = nid(e["s"]), nid(e["t"])
        a = dict(e["a"])
        r = a.pop("res")
        g = groups.setdefault(s, {}).setdefault(vf.canon(a), {"a": a, "alts": {}})
        g["alts"][(vf.canon(r), t)] = {"res": r, "t": t}
    lk = [None] * len(nodes)
    for tag, o in res.prints:
        if tag == "LK":
            k = vf.canon(o["s"])
            if k in ids:
                lk[ids[k]] = o["lk"]
    if any(x is None for x in lk):
        raise vf.Infra("cfg %s: %d states without lookup answers" % (name, sum(1 for x in lk if x is None)))
    init = [i for i, s in enumerate(nodes) if all(not s[k] for k in s)]
    if len(init) != 1:
        raise vf.Infra("cfg %s: initial state not found" % name)
    out = [[{"a": g["a"], "alts": list(g["alts"].values())} for g in groups.get(i, {}).values()] for i in range(len(nodes))]
    agents = sorted(set(c["Orig"]) | set(c["Peer"]) | set(c["AgtKeys"]) - {"L"})
    nedges = sum(len(g["alts"]) for gs in groups.values() for g in gs.values())
    nondet = sum(1 for gs in groups.values() for g in gs.values() if len(g["alts"]) > 1)
    return {"name": name, "w": 2, "agents": agents, "orig_has_l": "L" in c["Orig"], "nseq": max(c["Seqs"]) + 1, "casevars": c["CaseVars"],
            "nodes": nodes, "init": init[0], "out": out, "lk": lk}, nedges, nondet


def replay(ctx, results):
    """spec -> code.  Returns (summaries per cfg, state mismatches, lookup mismatches, totals)."""
    graphs, nedges, nondet = [], 0, 0
    for n, r in results.items():
        g, ne, nd = build_graph(n, r)
        graphs.append(g)
        nedges += ne
        nondet += nd
    if os.environ.get("VERIF_SELFTEST_CORRUPT_GRAPH"):
        # binding self-test: falsify one expected call result and one expected lookup answer of the first graph;
        # the run must then end with VIOLATION (C10 for the result, C08/C09 for the answer)
        g = graphs[0]
        done = False
        for grp in (x for gs in g["out"] for x in gs):
            if grp["alts"][0]["res"] is True and not done:
                grp["alts"][0]["res"] = False
                done = True
        for lk in g["lk"]:
            hit = [q for t in ("cidr", "dom", "fwd", "agt") for q in lk[t] if q["ok"]]
            if hit:
                hit[0]["ok"] = []
                break
    inp = os.path.join(ctx.work, "routetable_graphs.json")
    vf.write_json(inp, {"graphs": graphs, "maxlen": 80})
    r = ctx.gotest("routing", HFILES, "^TestZZVRouteWalk$", env={"ZZV_IN": inp})
    summ = {s["graph"]: s for s in r.of("summary")}
    if set(summ) != set(results):
        raise vf.Infra("replay harness produced no summary for %s:\n%s" % (sorted(set(results) - set(summ)), r.out[-2000:]))
    for n, s in summ.items():
        if s["uncovered"] and not s["mismatches"]:
            raise vf.Infra("replay of %s left %d of %d (state, action) pairs unexecuted" % (n, s["uncovered"], s["groups"]))
    return summ, r.of("mismatch"), r.of("lkmismatch"), {"edges": nedges, "nondet_groups": nondet}


def cleanup_behind_fresh_head(results):
    """Tables for which the replayed graphs contain the case `Cleanup removes a stale foreign route that sits behind a
    fresh lowest-metric route of the same key` (the head of the key's slice survives, a later element must go)."""
    found = set()
    for r in results.values():
        for e in r.edges:
            a = e["a"]
            if a.get("act") != "Cleanup" or not a.get("res"):
                continue
            tb = a["tbl"]
            before, after = e["s"][tb], [vf.canon(x) for x in e["t"][tb]]
            for x in before:
                if not x["old"] or x["origin"] == "L" or vf.canon(x) in after:
                    continue
                same = [y for y in before if vf.canon(y["key"]) == vf.canon(x["key"]) and y is not x]
                if any(not y["old"] and y["metric"] <= x["metric"] and vf.canon(y) in after for y in same):
                    found.add(tb)
    return found


def lk_kind(mm):
    if mm["real"] == "nothing":
        return "missed"
    if not mm["acceptable"]:
        return "unexpected-hit"
    return "wrong-route"


def report_replay(ctx, pid, mism, lkmism):
    """Findings of this property; findings that belong to a sibling property are only logged."""
    other = 0
    for mm in mism:
        a = mm["a"]
        key = "RouteTable:%s:%s" % (a["act"], a.get("tbl") or {"C": "cidr", "D": "dom", "F": "fwd"}.get(a["act"][-4:-3], "cidr"))
        what = "routing.Manager %s %s in state [%s]: real result %s, real state [%s]; the spec allows %s (real sequence " \
               "values of the abstract ones: %s)" % (
                   a["act"], json.dumps({k: v for k, v in a.items() if k != "act"}), mm["s"], mm["real_res"], mm["real_t"],
                   json.dumps(mm["spec"]), mm.get("real_sequence_of_abstract"))
        if pid == "C10":
            ctx.finding(key, what, mm)
        else:
            other += 1
            ctx.log("note (C10's domain):", what[:300])
    for mm in lkmism:
        owner = "C08" if mm["tbl"] == "cidr" else "C09"
        key = "RouteTable:Lookup:%s:%s" % (mm["tbl"], lk_kind(mm))
        what = "%s lookup of %s (%s, case variant %d) returned %s; acceptable per the statement: %s; table: [%s]" % (
            mm["tbl"], mm["text"], json.dumps(mm["q"]), mm["cv"], mm["real"], mm["acceptable"] or "nothing", mm["state"])
        if pid == owner:
            ctx.finding(key, what, mm)
        else:
            other += 1
            ctx.log("note (%s's domain):" % owner, what[:300])
    return other


def traces(ctx, pid, tables, ntraces, nops, name, chunks=1):
    """code -> spec.  `chunks` separate recordings of ntraces histories each (one TLC validation per recording keeps
    the deserialised trace small).  Returns (aggregated harness summary, validation result of the last recording or of
    the first one that was not accepted)."""
    agg, v = None, None
    for c in range(chunks):
        out = os.path.join(ctx.work, "%s-%d.ndjson" % (name, c))
        env = {"ZZV_OUT": out, "ZZV_TRACES": ntraces, "ZZV_OPS": nops, "ZZV_TABLES": ",".join(tables), "ZZV_CHUNK": c}
        if os.environ.get("VERIF_SELFTEST_CORRUPT"):
            env["ZZV_CORRUPT"] = os.environ["VERIF_SELFTEST_CORRUPT"]   # binding self-test: falsify one logged event
        r = ctx.gotest("routing", HFILES, "^TestZZVRouteTrace$", env=env)
        summ = r.of("summary")
        if not summ:
            raise vf.Infra("trace harness produced no summary")
        s = summ[0]
        v = ctx.validate_trace("TraceRouteTable", "TraceRouteTable.cfg", out, name=name, timeout=2400)
        if agg is None:
            agg = dict(s)
            agg["validated_traces"] = 0
            agg["highwater_total"] = 0
        else:
            for k in ("traces", "events", "lookup_hits", "lookup_misses", "lookup_multi_candidate"):
                agg[k] += s[k]
            for k, n in s["counts"].items():
                agg["counts"][k] = agg["counts"].get(k, 0) + n
        agg["highwater_total"] += (v["hw"] or 1) - 1
        if not v["accepted"]:
            break
        agg["validated_traces"] += s["traces"]
        os.remove(out)
    return agg, v


def report_trace(ctx, pid, v):
    if v["accepted"]:
        return 0
    if v["violated"] != "rejected":
        # an invariant / action property of the spec failed on a state of the recorded execution (maintenance rules)
        what = "a recorded execution of the real routing.Manager violates %s of RouteTable.tla" % v["violated"]
        if pid == "C10":
            ctx.finding("RouteTable:trace-invariant:%s" % v["violated"], what, {"tlc_tail": v["res"].out[-3000:]})
            return 0
        ctx.log("note (C10's domain):", what)
        return 1
    ev = v["event"] or {}
    if ev.get("ev") == "Lookup":
        owner = "C08" if ev.get("tbl") == "cidr" else "C09"
        key = "RouteTable:trace-lookup:%s:%s" % (ev.get("tbl"), "hit" if ev.get("hit") else "miss")
        what = "recorded %s lookup %s (case variant %s) answered %s, which is outside the acceptable set of the " \
               "statement's oracle on the table recorded just before (event #%d)" % (
                   ev.get("tbl"), json.dumps(ev.get("q")), ev.get("cv"),
                   json.dumps(ev.get("res")) if ev.get("hit") else "nothing", v["hw"])
    else:
        owner = "C10"
        key = "RouteTable:trace-rejected:%s:%s" % (ev.get("ev"), ev.get("tbl", ""))
        what = "recorded execution is not a behaviour of RouteTable.tla: event #%d %s cannot be matched" % (
            v["hw"], json.dumps(ev)[:600])
    if owner == pid:
        ctx.finding(key, what, {"event_index": v["hw"], "event": ev, "context": v["context"]})
        return 0
    ctx.log("note (%s's domain): %s" % (owner, what[:300]))
    return 1
