# G01 (growth, not one of the 39 listed properties) - NODE_INFO flooding and ROUTE_WITHDRAW of internal/flood
#
# What is decided (spec/FloodInfo.tla, invariants in brackets):
#  * node info: a flooded info passes an agent's seen check at most once and is forwarded at most once per neighbour while
#    the cache entry is live [InfoProcessedOnce InfoForwardedOnce], every forwarding chain is a simple path
#    [ChainsSimple], at most one frame per link direction per announcement [MsgBound]; the stored info of an origin is
#    never replaced by an older one [InfoMonotone InfoSane]; at quiescence every agent holds the newest info of every
#    agent it is connected to, also after peers connect (replay) [InfoConverged];
#  * withdrawals: processed / forwarded at most once [RouteProcessedOnce RouteForwardedOnce]; an agent that processed a
#    withdrawal never holds an older copy of the withdrawn route again, whatever is replayed to it [NoResurrection]; a
#    withdrawal never removes what the origin announced after it [WithdrawRespectsSequence]; when a withdrawal has
#    reached quiescence nobody routes to the origin's exit routes unless they were announced again [Withdrawn]; an
#    origin that announced after its last withdrawal is known everywhere [RouteConverged].
#
# Interpretation (permissive):
#  * "at most once" is evaluated while the seen-cache entry is live (as C11).
#  * Convergence of node info is required only in behaviours without TTL drops of node-info entries
#    (CleanupStaleNodeInfo): an agent that forgot an entry cannot replay it; the periodic announcement repairs that.
#  * Verdicts about withdrawals come from schedules with FIFO links only (one ordered queue per connection direction,
#    as the transports deliver); reordering on one connection is never used against the code.
#  * WithdrawLocalRoutes leaves the local routes configured; a later AnnounceLocalRoutes / table replay of the origin is
#    "announced again later".
#
# Binding: (a) edge-cover replay of the IDEAL relation (Dev = {}) on the real Flooder+Manager network; every
# difference must be one of the named deviations of AS_BUILT, (b) edge-cover replay of the AS-BUILT relation
# (Dev = AS_BUILT) which must be exact (no difference at all: the code is the ideal design plus exactly these
# deviations), (c) random schedules on 5-6 nodes validated by TLC against the as-built spec (every event, the
# invariants the code is expected to keep), and against the ideal spec (thorough) to see which deviations they show.
import os
import vf, _floodinfo as F
from _floodinfo import sc, AB, BC, AC, A3, A4

TRI = (AB, BC, AC)
SITE = {"DevWithdrawOnlyCidr": "WithdrawLocalRoutes", "DevWithdrawIgnoresSequence": "HandleRouteWithdraw",
        "DevReplayResurrectsWithdrawn": "HandleRouteAdvertise"}


def info_scens(ctx):
    """node info: every connected topology with <= 3 agents; any delivery order (bags), expiry, TTL drop, a joining peer"""
    out = [
        sc("i-line2", (AB,), ia={"a": 2, "b": 1}, exp=1, forget=1, fifo=False),
        sc("i-line3", (AB, BC), ia={"a": 1, "b": 1}, exp=1, fifo=False),
        sc("i-tri", TRI, ia={"a": 1, "b": 1}, fifo=False),
        sc("i-tri-e", TRI, ia={"a": 1}, exp=1, forget=1, fifo=False),
        sc("i-join", (AB,), links=(BC,), ia={"a": 1, "b": 1}, conn=1),
        sc("i-join-b", (AB,), links=(BC,), ia={"b": 1}, conn=1, forget=1),
    ]
    if not ctx.quick():
        out += [
            sc("i-dyn", (AB, BC), links=(AC,), dlinks=(AB,), ia={"a": 1}, conn=1, disc=1, fifo=False),
        ]
    return out


def wd_scens(ctx):
    """withdrawals (FIFO links): every connected topology with <= 3 agents, the origin at the end and in the middle of
    the line; a peer that joins while the withdrawal travels; a stale peer that replays the withdrawn route"""
    out = [
        sc("w-line2", (AB,), loc={"a": ["r1", "r2"]}, ra={"a": 2}, wn={"a": 1}),
        sc("w-line3", (AB, BC), loc={"a": ["r1", "r2"]}, ra={"a": 2}, wn={"a": 1}),
        sc("w-mid3", (AB, AC), loc={"a": ["r1"]}, ra={"a": 1}, wn={"a": 1}, exp=1),
        sc("w-tri", TRI, loc={"a": ["r1"]}, ra={"a": 1}, wn={"a": 1}, exp=1),
        sc("w-late", (AB, BC), links=(AC,), dlinks=(), loc={"a": ["r1"]}, wn={"a": 1}, conn=1),
        sc("w-stale", (AB, AC), links=(BC,), dlinks=(AC,), loc={"a": ["r1"]}, ra={"a": 1}, wn={"a": 1}, conn=1, disc=1,
           exp=1, expat=["b"], script=("ra", "disc", "wd", "exp", "conn")),
    ]
    if not ctx.quick():
        out += [
            sc("w-tri2a", TRI, loc={"a": ["r1", "r2"], "b": ["r1"]}, ra={"a": 1, "b": 1}, wn={"a": 1}),
            sc("w-tri2b", TRI, loc={"a": ["r1"], "b": ["r1"]}, ra={"a": 1}, wn={"a": 1, "b": 1}),
            sc("w-tri2c", TRI, loc={"a": ["r1", "r2"]}, ra={"a": 2}, wn={"a": 1}),
            sc("w-late2", (AB, BC), links=(AC,), dlinks=(), loc={"a": ["r1"]}, ra={"a": 1}, wn={"a": 1}, conn=1),
        ]
    return out


def big_scens(ctx):
    """model checking only (too big to replay every transition)"""
    k4 = [("a", "b"), ("a", "c"), ("a", "d"), ("b", "c"), ("b", "d"), ("c", "d")]
    sq = (("a", "b"), ("b", "c"), ("c", "d"), ("a", "d"))
    return [
        (sc("i-sq4", sq, ia={"a": 1, "c": 1}, exp=1, fifo=False), A4),
        (sc("i-tri2", TRI, ia={"a": 2, "b": 1}, exp=1, fifo=False), A3),
        (sc("w-tri2", TRI, loc={"a": ["r1", "r2"], "b": ["r1"]}, ra={"a": 2, "b": 1}, wn={"a": 1}), A3),
        (sc("i-dyn2", (AB, BC), links=(AC,), dlinks=(AB,), ia={"a": 2}, conn=1, disc=1), A3),
        (sc("i-join2", (AB,), links=(BC, AC), ia={"a": 1, "c": 1}, conn=2, script=("ia", "conn", "ia", "conn")), A3),
        (sc("i-k4", k4, ia={"a": 1}, exp=1, forget=1, fifo=False), A4),
        (sc("w-sq4", sq, loc={"a": ["r1"]}, ra={"a": 2}, wn={"a": 1}, fifo=False), A4),
        (sc("w-bag3", TRI, loc={"a": ["r1", "r2"]}, ra={"a": 2}, wn={"a": 1}, exp=1, fifo=False), A3),
        (sc("w-stale-free", (AB, AC), links=(BC,), dlinks=(AC,), loc={"a": ["r1"]}, ra={"a": 1}, wn={"a": 1}, conn=1, disc=1,
            exp=1, expat=["b"]), A3),
    ]


def run(ctx):
    from concurrent.futures import ThreadPoolExecutor
    iscens, wscens = info_scens(ctx), wd_scens(ctx)
    ntr, nops = (25, 60) if ctx.quick() else (600, 120)

    # ---- phase A, side by side: all TLC runs of the bounded models  ||  the random schedules on the real network
    def tlc_phase():
        jobs = []
        for name, scens, dev, invs in (("ideal", iscens + wscens, (), F.INVS), ("asbuilt", wscens, F.AS_BUILT, F.INVS_AS_BUILT)):
            mod, cfg, files = F.mc_files(scens, A3, dev=dev, emit=True, invs=invs)
            jobs.append(dict(module=mod, name=name, files=files, workers=2 if ctx.quick() else 4, heap="4g"))
        for d in F.DEVS:
            s, agents = F.dev_scen(d)
            mod, cfg, files = F.mc_files([s], agents, dev=[d], emit=False)
            jobs.append(dict(module=mod, name="dev-" + d, files=files, workers=1, heap="2g"))
        bigs = big_scens(ctx) if not ctx.quick() else []
        for s, agents in bigs:
            mod, cfg, files = F.mc_files([s], agents, dev=(), emit=False, invs=F.INVS)
            jobs.append(dict(module=mod, name="big-" + s["name"], files=files, workers=3, heap="6g"))
        res = F.tlc_many(ctx, jobs, par=4)
        ideal, built = res[0], res[1]
        for name, r in (("ideal", ideal), ("as-built", built)):
            if r.violated:
                raise vf.Infra("the %s FloodInfo spec violates %s (specification error)" % (name, r.violated))
        caught = {}
        for d, r in zip(F.DEVS, res[2:2 + len(F.DEVS)]):
            if not r.violated:
                raise vf.Infra("deviation %s is not detected by the invariants (vacuous model)" % d)
            caught[d] = r.violated
        big = []
        for (s, _), r in zip(bigs, res[2 + len(F.DEVS):]):
            if r.violated:
                raise vf.Infra("ideal FloodInfo spec violates %s on scenario %s" % (r.violated, s["name"]))
            big.append({"scenario": s["name"], "states": r.distinct, "transitions": r.generated})
        return ideal, built, caught, big

    with ThreadPoolExecutor(max_workers=2) as ex:
        f_tlc = ex.submit(tlc_phase)
        f_tr = ex.submit(F.traces, ctx, ntr, nops)
        ideal, built, caught, big = f_tlc.result()
        tr = f_tr.result()

    # ---- phase B, side by side: replay of both relations (spec -> code)  ||  validation of the traces (code -> spec)
    with ThreadPoolExecutor(max_workers=2) as ex:
        f_rep = ex.submit(F.replay, ctx, [("ideal", ideal.edges, A3), ("asbuilt", built.edges, A3)])
        f_val = ex.submit(F.validate, ctx, tr["file"], "trace-asbuilt", F.INVS_AS_BUILT, F.AS_BUILT)
        rep = f_rep.result()
        v = f_val.result()
    rep_ideal, rep_built = rep["ideal"], rep["asbuilt"]

    seen_dev = {}
    for mm in rep_ideal["mismatches"]:
        if mm.get("field") == "harness":
            raise vf.Infra("replay harness problem: %s (%s)" % (mm.get("problem"), F.compact(mm.get("a") or {})))
        dev, site = F.classify(mm)
        mm["classified"] = dev
        what = "real flooder departs from the ideal FloodInfo.tla at %s in scenario %s (%s): %s [after %s]" % (
            F.compact(mm.get("a") or {}), mm.get("sc"), dev or "unexplained", F.describe(mm),
            [F.compact(a) for a in mm.get("history", [])][-9:-1])
        if dev and dev not in seen_dev:
            seen_dev[dev] = what
        if dev is None:
            ctx.finding("FloodInfo:unexplained:%s" % site, what, mm)
    for mm in rep_built["mismatches"]:
        if mm.get("field") == "harness":
            raise vf.Infra("replay harness problem: %s (%s)" % (mm.get("problem"), F.compact(mm.get("a") or {})))
        ctx.finding("FloodInfo:unexplained:asbuilt:%s" % F.classify(mm)[1],
                    "real flooder departs from FloodInfo.tla with Dev = AS_BUILT at %s in scenario %s: %s [after %s]" % (
                        F.compact(mm.get("a") or {}), mm.get("sc"), F.describe(mm),
                        [F.compact(a) for a in mm.get("history", [])][-9:-1]), mm)
    for dev, what in sorted(seen_dev.items()):
        ctx.finding("FloodInfo:%s:%s" % (dev, SITE[dev]), what, {"deviation": dev})

    # ---- traces (code -> spec)
    for p in tr["preds"]:
        ctx.finding("FloodInfo:content:%s" % p.get("kind"), "%s [random schedule %s]" % (p["what"], p.get("setup")), p)
    if not v["accepted"]:
        if v["violated"] and v["violated"] != "rejected":
            what = "a recorded execution of the real flooder network violates invariant %s of FloodInfo.tla" % v["violated"]
        else:
            what = "a recorded execution of the real flooder network is not a behaviour of FloodInfo.tla (Dev = AS_BUILT): event #%s %s cannot be matched" % (
                v["hw"], json_slim(v["event"]))
        ctx.finding("FloodInfo:unexplained:trace:%s" % ((v["event"] or {}).get("ev", v["violated"])), what,
                    {"event_index": v["hw"], "event": v["event"], "context": v["context"], "tlc_tail": v["res"].out[-2500:]})
    shown = {}
    if not ctx.quick() and v["accepted"]:
        # which deviations do the random executions exhibit?  leave one out: rejected <=> exhibited
        with ThreadPoolExecutor(max_workers=3) as ex:
            ws = list(ex.map(lambda d: F.validate(ctx, tr["file"], "trace-without-" + d, "", [x for x in F.AS_BUILT if x != d]),
                             F.AS_BUILT))
        for d, w in zip(F.AS_BUILT, ws):
            shown[d] = not w["accepted"]
            if shown[d]:
                ctx.finding("FloodInfo:%s:%s" % (d, SITE[d]),
                            "random schedule of the real flooder network shows %s: event #%s %s is not a step of the spec without it" % (
                                d, w["hw"], json_slim(w["event"])), {"event": w["event"], "context": w["context"]})

    ctx.evidence("model_checking",
                 assumptions=["bounded model: every connected topology with <= 3 agents (2-line, 3-line with the origin at the end / in "
                              "the middle, triangle), <= 2 announcements and 1 withdrawal per origin, one seen-cache expiry, one "
                              "node-info TTL drop, one connect / disconnect per behaviour (scenarios in checks/G01.py)",
                              "node-info scenarios deliver in any order (bags); withdrawal scenarios use FIFO queues per connection "
                              "direction (the ideal design is also model-checked with bags in the thorough tier)",
                              "sequence numbers of an origin never decrease (no agent restart with reset counters)",
                              "convergence of node info is required only without TTL drops (see the head of checks/G01.py)"],
                 states=ideal.distinct + built.distinct, transitions=ideal.generated + built.generated,
                 traces_validated_against_impl=rep_ideal["paths"] + rep_built["paths"] + tr["summary"]["traces"],
                 exhaustive=True,
                 ideal_states=ideal.distinct, ideal_transitions=ideal.generated, asbuilt_states=built.distinct,
                 asbuilt_transitions=built.generated,
                 replayed_paths=rep_ideal["paths"] + rep_built["paths"], replayed_steps=rep_ideal["steps"] + rep_built["steps"],
                 replay_edges=rep_ideal["edges"] + rep_built["edges"], replay_forks=rep_ideal["forks"] + rep_built["forks"],
                 ideal_replay_mismatches=len(rep_ideal["mismatches"]),
                 ideal_replay_mismatches_by_deviation={d: sum(1 for m in rep_ideal["mismatches"] if m.get("classified") == d)
                                                       for d in F.AS_BUILT},
                 asbuilt_replay_mismatches=len(rep_built["mismatches"]),
                 trace_events=tr["summary"]["events"], trace_withdrawals=tr["summary"]["withdrawals"],
                 trace_highwater=v["hw"], trace_accepted=v["accepted"], trace_deviations_shown=shown,
                 deviations_caught=caught, as_built=F.AS_BUILT, bigger_models=big,
                 scenarios=[s["name"] for s in iscens + wscens],
                 samples=rep_ideal["samples"] + rep_built["samples"] + [{"random_schedule": s} for s in tr["summary"]["sample"][:2]])


def json_slim(ev):
    import json
    if not ev:
        return None
    e = {k: v for k, v in ev.items() if k != "st"}
    if "st" in ev:
        st = ev["st"]
        e["st"] = {k: (v[:8] if isinstance(v, list) else v) for k, v in st.items()}
    return json.dumps(e)[:700]
