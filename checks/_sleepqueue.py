# Shared code of the G04 check (spec/SleepQueue.tla): constants per tier, TLC jobs, path covers, the three bindings
#   (a) type level   harness/sleep/sleepqueue_test.go   real sleep.Manager / StateQueue + QUEUED_STATE codec
#   (b) holder       harness/agent/sleepqueue_test.go   TestZZVSQHolder: puppet mesh Q - real agent A - real sleeper S
#   (c) receiver     harness/agent/sleepqueue_test.go   TestZZVSQReceiver: real StateQueue -> QUEUED_STATE -> real agent
# and the classification of replay differences against the as-built relation (labels `dev` of its edges).
import json, os
import vf, _replay as R

MODULE = "SleepQueue"
INVS = ("TypeOK QueueBounded WellFormed NothingQueuedForAwake FrameFits DeliveredOnce ReceiverExact NoResurrection "
        "WithdrawRespectsSequence SleeperLearnsNewest")
PROPS = "FrameAlwaysSendable InfoNewestKept FifoKept OverflowKeepsNewest EvictionOnlyAtBound PerPeer NoNeedlessLoss"
# what the as-built relations still keep
INVS_BUILT_Q = "TypeOK QueueBounded WellFormed NothingQueuedForAwake FrameFits DeliveredOnce"
PROPS_BUILT_Q = "InfoNewestKept FifoKept OverflowKeepsNewest EvictionOnlyAtBound PerPeer"
INVS_BUILT_A = "TypeOK QueueBounded WellFormed NothingQueuedForAwake FrameFits DeliveredOnce"
PROPS_BUILT_A = "FrameAlwaysSendable InfoNewestKept FifoKept OverflowKeepsNewest EvictionOnlyAtBound PerPeer NoNeedlessLoss"

RECV_BUILT = ["DevWithdrawIgnoresSequence", "DevReplayResurrectsWithdrawn"]           # G01's receiver deviations
AS_BUILT_Q = ["DevNoCommandSlot", "DevNoFrameSplit"] + RECV_BUILT                      # queue type + codec + receiver
FULLTABLE = ["DevAgentNeverQueues", "DevSleeperDropsTable"]                            # the as-built resync design
AS_BUILT_A = FULLTABLE + ["DevSeenBlocksResync"] + RECV_BUILT                          # whole agents
AS_BUILT_A_REPAIRED = FULLTABLE + RECV_BUILT                                           # ... if the seen cache did not block
MUTATIONS = ["DevQueueOlderOvertakes", "DevNotClearedAfterDelivery", "DevOverflowDropsNewest", "DevQueueForAwakePeer"]
ALL_DEVS = MUTATIONS + ["DevAgentNeverQueues", "DevSleeperDropsTable", "DevSeenBlocksResync", "DevNoCommandSlot",
                        "DevNoFrameSplit"] + RECV_BUILT

# finding keys (known_findings.d/G04.json); DevSleeperDropsTable is the other half of the as-built resync design and
# is reported together with DevAgentNeverQueues
SITE = {
    "DevAgentNeverQueues": "agent.handlePeerConnected",
    "DevSleeperDropsTable": "agent.handlePeerConnected",
    "DevSeenBlocksResync": "HandleRouteAdvertise",
    "DevNoCommandSlot": "StateQueue",
    "DevNoFrameSplit": "StateQueue.GetAndClear",
    "DevWithdrawIgnoresSequence": "handleQueuedState",
    "DevReplayResurrectsWithdrawn": "handleQueuedState",
}
KEYDEV = {"DevSleeperDropsTable": "DevAgentNeverQueues"}


def key_of(dev):
    d = KEYDEV.get(dev, dev)
    return "SleepQueue:%s:%s" % (d, SITE[d])


def S(xs):
    return "{%s}" % ",".join('"%s"' % x for x in xs)


def consts(tier, kind):
    """kind: 'replay' (edges emitted), 'big' (model checking only), 'sens' (sensitivity runs)"""
    c = dict(Peers=S(["s"]), Origins=S(["o1", "o2"]), MaxSeq=2, WdOrigins=S(["o1"]), WdSeqs="{1}", InfoOrigins=S(["o1"]),
             Cmds=S(["c1"]), Bound=2, FrameCap=2, MaxLive=3, MaxSleeps=2, MaxExpire=1, MaxHolderWake=1, Ghost="TRUE")
    if kind == "sens":
        c.update(MaxLive=4, MaxSeq=2, WdSeqs="{2}", MaxHolderWake=0)
    if kind == "big":
        c.update(Peers=S(["s", "t"]), MaxSeq=3, WdSeqs="{2}", MaxLive=4, FrameCap=3)
    if tier == "thorough" and kind == "replay":
        c.update(MaxSeq=3, WdSeqs="{2}", InfoOrigins=S(["o1"]), MaxLive=3)
    return c


def cfg(c, dev=(), emit=False, invs="", props=""):
    c = dict(c)
    c.setdefault("DevChoices", "{}")
    return R.cfg_text(c, dev=dev, emit=emit, invs=invs, props=props)


GHOST_INVS = ("SleeperLearnsNewest", "DeliveredOnce", "NoNeedlessLoss")


def job(name, c, dev=(), emit=False, invs="", props="", workers=2, heap="4g", expect_violation=False):
    """emit runs leave the ghost variables out (fewer transitions to print) and skip the invariants that need them"""
    c = dict(c)
    if emit:
        c["Ghost"] = "FALSE"
        invs = " ".join(i for i in invs.split() if i not in GHOST_INVS)
        props = " ".join(i for i in props.split() if i not in GHOST_INVS)
    return dict(module=MODULE, name=name, cfg=cfg(c, dev, emit, invs, props), workers=workers, heap=heap,
                expect_violation=expect_violation)


# ---- combined sensitivity run: one TLC run explores every deviation set; Catch / CatchStep print what catches it
SENS_CHOICES = [[]] + [FULLTABLE] + [[d] for d in ALL_DEVS if d != "DevSeenBlocksResync"] + [FULLTABLE + ["DevSeenBlocksResync"]]


def sens_job():
    c = dict(Peers=S(["s"]), Origins=S(["o1"]), MaxSeq=3, WdOrigins=S(["o1"]), WdSeqs="{2}", InfoOrigins=S(["o1"]),
             Cmds=S(["c1"]), Bound=1, FrameCap=1, MaxLive=2, MaxSleeps=2, MaxExpire=0, MaxHolderWake=0, Ghost="TRUE",
             DevChoices="{%s}" % ", ".join(S(x) for x in SENS_CHOICES))
    text = "CONSTANTS %s Dev = {} Emit = FALSE\nINIT Init\nNEXT Next\nVIEW view\nCONSTRAINT Catch\nACTION_CONSTRAINT CatchStep\n" % (
        " ".join("%s = %s" % kv for kv in c.items()))
    return dict(module=MODULE, name="sensitivity", cfg=text, workers=2, heap="4g")


def caught(res):
    """{frozenset(deviation set): set of invariant / step-property names that caught it}"""
    out = {}
    for tag, o in res.prints:
        if tag == "CAUGHT":
            out.setdefault(frozenset(o["dev"]), set()).update(o["by"])
    return out


# ------------------------------------------------------------------ relations and covers
def is_init(s):
    h = s["hold"]
    if h["seen"] or h["iseen"] or h["cseen"] or h["pend"] != "none" or any(h["tab"].values()) or any(h["info"].values()):
        return False
    for p, m in s["mode"].items():
        r, q = s["rcv"][p], s["q"][p]
        if m != "awake" or s["draining"][p] or s["msg"][p] or q["adv"] or q["wd"] or q["info"] or q["cmd"] != "none":
            return False
        if r["seen"] or r["iseen"] or r["cseen"] or any(r["tab"].values()) or any(r["tomb"].values()) or any(r["info"].values()):
            return False
    return True


def base_act(a):
    b = {"act": a["act"]}
    for k in ("f", "p"):
        if k in a:
            b[k] = a[k]
    return b


def doc_of(edges, c, label, keep=None, max_paths=None, max_len=60):
    """path cover of a relation as a compact document for the harnesses"""
    es = [e for e in edges if keep is None or keep(e)]
    doc, npaths, nnodes, nedges, nsteps = R.compact_paths(es, is_init, max_len=max_len)
    if max_paths is not None and len(doc["paths"]) > max_paths:
        doc["paths"] = doc["paths"][:max_paths]
        npaths, nsteps = len(doc["paths"]), sum(len(p["steps"]) for p in doc["paths"])
    doc.update(label=label, bound=c["Bound"], framecap=c["FrameCap"], peers=json.loads(c["Peers"].replace("{", "[").replace("}", "]")),
               origins=json.loads(c["Origins"].replace("{", "[").replace("}", "]")),
               cmds=json.loads(c["Cmds"].replace("{", "[").replace("}", "]")), maxseq=c["MaxSeq"])
    return doc, dict(paths=npaths, nodes=nnodes, edges=nedges, steps=nsteps)


def outcomes(edges):
    """which queue outcomes / actions the relation exercises (non-vacuity of the bounded instance)"""
    acts, outs = {}, {}
    for e in edges:
        a = e["a"]
        acts[a["act"]] = acts.get(a["act"], 0) + 1
        if a["act"] == "Live":
            for o in a["out"].values():
                outs[o] = outs.get(o, 0) + 1
        if a["act"] == "Deliver":
            k = "deliver-" + a["res"] + ("-more" if a.get("more") else "")
            outs[k] = outs.get(k, 0) + 1
    return acts, outs


# ------------------------------------------------------------------ classification
def red(world, s):
    """the part of a spec state a binding depends on: the type-level world has no agents, the receiver world no holder"""
    if world == "type":
        return {k: s[k] for k in ("mode", "draining", "q", "msg")}
    if world == "receiver":
        return {k: v for k, v in s.items() if k != "hold"}
    return s


def red_act(world, a):
    drop = ("dev",) if world == "holder" else ("dev", "hres")
    a = {k: v for k, v in a.items() if k not in drop}
    if world == "type" and a.get("act") == "Live":
        a.pop("res", None)            # what a connected peer did with the frame
    return a


def index(edges, world="holder"):
    """(reduced pre-state, base action) -> edges; each edge gets its reduced post-state / action precomputed (_ct, _ca)"""
    ix, memo = {}, {}

    def cs(st):
        k = id(st)
        if k not in memo:
            memo[k] = vf.canon(red(world, st))
        return memo[k]
    # TLC prints every state many times: share one canonical string per distinct state
    uniq = {}
    for e in edges:
        ks = vf.canon(e["s"])
        kt = vf.canon(e["t"])
        s0 = uniq.setdefault(ks, e["s"])
        t0 = uniq.setdefault(kt, e["t"])
        e2 = {"s": s0, "a": e["a"], "t": t0, "_ct": cs(t0), "_ca": vf.canon(red_act(world, e["a"]))}
        ix.setdefault((cs(s0), vf.canon(base_act(e["a"]))), []).append(e2)
    return ix


def lookup(mm, doc, built_ix, proj, same_obs):
    """mm: mismatch record {path, step, real, obs}; returns (s, a, devs) where devs is the union of the `dev` labels of
    the as-built edges from the same pre-state with the same base action whose post-state projection and observation
    equal what the real code did (None if there is no such edge)."""
    p = doc["paths"][mm["path"]]
    si = mm["step"]
    if si < 0:
        return None, None, None
    s = doc["states"][p["init"] if si == 0 else p["steps"][si - 1]["t"]]
    a = p["steps"][si]["a"]
    cands = built_ix.get((vf.canon(s), vf.canon(base_act(a))), [])
    devs = None
    for e in cands:
        if vf.canon(proj(e["t"])) == vf.canon(mm["real"]) and same_obs(e["a"], mm.get("obs") or {}):
            devs = set(devs or ()) | set(e["a"].get("dev", []))
    return s, a, (sorted(devs) if devs is not None else None)


def slim(a):
    a = dict(a)
    a.pop("dev", None)
    return json.dumps(a, sort_keys=True)[:300]


# ------------------------------------------------------------------ projections (the same as the Go harnesses compute)
def _norm_q(q):
    return {"adv": q["adv"], "wd": q["wd"], "info": q["info"], "cmd": q["cmd"]}


def _obs(r):
    return {"tab": dict(r["tab"]), "info": dict(r["info"]), "seen": sorted("%s/%d" % (x["o"], x["n"]) for x in r["seen"]),
            "niseen": len(r["iseen"]), "ncseen": len(r["cseen"])}


def proj_type(t, a=None):
    """(a) harness/sleep: queues in order + undelivered message parts"""
    return {"q": {p: _norm_q(q) for p, q in t["q"].items()}, "msg": {p: list(m) for p, m in t["msg"].items()}}


def proj_holder(t, a=None):
    p = sorted(t["mode"])[0]
    q = t["q"][p]
    queued = 1 if (q["adv"] or q["wd"] or q["info"] or q["cmd"] != "none") else 0
    return {"mode": t["mode"][p], "queued": queued, "hold": _obs(t["hold"]), "rcv": _obs(t["rcv"][p])}


def proj_receiver(t, a=None):
    p = sorted(t["mode"])[0]
    q = t["q"][p]
    full = {"q": [len(q["adv"]), len(q["wd"]), len(q["info"])], "has": bool(q["adv"] or q["wd"] or q["info"]),
            "rcv": _obs(t["rcv"][p])}
    if a is not None and (a["act"] == "Deliver" or (a["act"] == "ReceiverApply" and t["msg"][p])):
        return {"q": full["q"]}     # in the middle of a QUEUED_STATE frame only the queue is comparable
    return full


def _sorted_frames(fs):
    return sorted(({"k": f["k"], "o": f["o"], "n": f["n"]} for f in fs), key=lambda f: (f["k"], f["o"], f["n"]))


def obs_type(a, p="s"):
    return {"res": a["res"]} if a["act"] == "Deliver" else {}


def obs_holder(a, p="s"):
    sent = []
    if a["act"] == "Live" and a["out"][p] == "sent":
        sent = [a["f"]]
    if a["act"] == "PeerPolls":
        sent = a["sent"]
    return {"sent": _sorted_frames(sent), "queued_state_frames": 1 if a["act"] == "Deliver" else 0}


def obs_receiver(a, p="s"):
    if a["act"] == "Live" and a["out"][p] == "sent":
        return {"fwd": [a["f"]] if a["res"][p] != "dup" else []}
    if a["act"] == "Deliver":
        return {"res": a["res"], "frame": list(a["frame"]) if a["res"] == "sent" else []}
    if a["act"] == "ReceiverApply":
        return {"fwd": bool(a["fwd"])}
    return {}


WORLD = {"type": (proj_type, obs_type), "holder": (proj_holder, obs_holder), "receiver": (proj_receiver, obs_receiver)}


def _sub(want, got):
    """every key of want has the same value in got"""
    return all(vf.canon(got.get(k)) == vf.canon(v) for k, v in want.items())


def explain(mm, doc, other_ix, world):
    """A replay difference (record mm of a harness) on relation `doc`: look for an edge of the OTHER relation from the
    same pre-state with the same base action whose projected post-state and observation are what the real code did.
    Returns (s, a, devs): devs = union of the `dev` labels of the matching edges (or of the replayed edge when the other
    relation is the ideal one), None when nothing matches."""
    proj, obsf = WORLD[world]
    p = doc["paths"][mm["path"]]
    si = mm["step"]
    if si < 0:
        return None, None, None
    s = doc["states"][p["init"] if si == 0 else p["steps"][si - 1]["t"]]
    a = p["steps"][si]["a"]
    real = mm["real"]
    robs = mm.get("obs") or {}
    found = None
    for e in other_ix.get((vf.canon(red(world, s)), vf.canon(base_act(a))), []):
        want = proj(e["t"], e["a"])
        if world == "receiver" and set(want) == {"q"}:
            ok = vf.canon(real.get("q")) == vf.canon(want["q"])
        else:
            ok = vf.canon(real) == vf.canon(want)
        if ok and _sub(obsf(e["a"]), robs):
            found = set(found or ()) | set(e["a"].get("dev", []))
    return s, a, (sorted(found) if found is not None else None)


def first_dev(doc, other_ix, world):
    """per path of `doc`: (index of the first step that is not an edge of the other relation - as far as the binding
    `world` can tell -, dev labels of the other relation's edges there, the action)"""
    out = {}
    cst = [None] * len(doc["states"])

    def cs(i):
        if cst[i] is None:
            cst[i] = vf.canon(red(world, doc["states"][i]))
        return cst[i]
    for pi, p in enumerate(doc["paths"]):
        si0 = p["init"]
        for si, st in enumerate(p["steps"]):
            cands = other_ix.get((cs(si0), vf.canon(base_act(st["a"]))), [])
            a0 = vf.canon(red_act(world, st["a"]))
            rt = cs(st["t"])
            if not any(e["_ct"] == rt and e["_ca"] == a0 for e in cands):
                devs = set(st["a"].get("dev", []))
                for e in cands:
                    devs |= set(e["a"].get("dev", []))
                out[pi] = (si, sorted(devs), st["a"])
                break
            si0 = st["t"]
    return out


def sample(doc, first, per_class, extra, rng, cut=True, keep=None):
    """choose paths of an ideal cover: per deviation class (labels at the first departure) `per_class` paths, plus
    `extra` paths without any departure; paths are cut after their first departure; keep(devs, action) filters classes"""
    by = {}
    for pi in range(len(doc["paths"])):
        if pi in first and keep is not None and not keep(first[pi][1], first[pi][2]):
            continue
        cls = ",".join(first[pi][1]) if pi in first else ""
        by.setdefault(cls, []).append(pi)
    chosen = []
    for cls, ps in sorted(by.items()):
        ps = sorted(ps, key=lambda i: (first[i][0] if i in first else len(doc["paths"][i]["steps"])))
        take = ps[:max(1, per_class // 2)] + rng.sample(ps, min(len(ps), per_class))
        if cls == "":
            take = rng.sample(ps, min(len(ps), extra))
        chosen += sorted(set(take))
    out = dict(doc)
    out["paths"] = []
    exp = {}
    for pi in chosen:
        p = doc["paths"][pi]
        steps = p["steps"]
        if cut and pi in first:
            steps = steps[:first[pi][0] + 1]
        if pi in first:
            exp[len(out["paths"])] = first[pi]
        out["paths"].append({"init": p["init"], "steps": steps})
    return out, exp


def pick_cover(doc, n, rng):
    """quick tier on cmesh: n paths of a cover, first those that add a new (action, labels) class, then random ones"""
    def classes(p):
        out = set()
        for st in p["steps"]:
            a = st["a"]
            out.add(vf.canon({k: (v if k in ("act", "out", "res", "hres", "dev", "more", "fwd", "queued") else
                                  (v.get("k") if isinstance(v, dict) else None)) for k, v in a.items() if k != "p"}))
        return out
    if len(doc["paths"]) <= n:
        return doc
    left = list(range(len(doc["paths"])))
    rng.shuffle(left)
    seen, chosen = set(), []
    for pi in left:
        c = classes(doc["paths"][pi])
        if not c <= seen and len(chosen) < n:
            seen |= c
            chosen.append(pi)
    for pi in left:
        if len(chosen) >= n:
            break
        if pi not in chosen:
            chosen.append(pi)
    out = dict(doc)
    out["paths"] = [doc["paths"][i] for i in sorted(chosen)]
    return out
