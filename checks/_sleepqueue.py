# Shared code of the G04 check (spec/SleepQueue.tla): constants per tier, TLC jobs, path covers, the three bindings
#   (a) type level   harness/sleep/sleepqueue_test.go   real sleep.Manager / StateQueue + QUEUED_STATE codec
#   (b) holder       harness/agent/sleepqueue_test.go   TestZZVSQHolder: puppet mesh Q - real agent A - real sleeper S
#   (c) receiver     harness/agent/sleepqueue_test.go   TestZZVSQReceiver: real StateQueue -> QUEUED_STATE -> real agent
# and the classification of replay differences against the as-built relation (labels `dev` of its edges).
import json, os
import vf, _replay as R

MODULE = "SleepQueue"
INVS = ("TypeOK QueueBounded WellFormed NothingQueuedForAwake FrameFits DeliveredOnce ReceiverExact NoResurrection "
        "WithdrawRespectsSequence SleeperLearnsNewest")
PROPS = "FrameAlwaysSendable InfoNewestKept FifoKept OverflowKeepsNewest EvictionOnlyAtBound PerPeer NoNeedlessLoss"
# what the as-built relations still keep
INVS_BUILT_Q = "TypeOK QueueBounded WellFormed NothingQueuedForAwake FrameFits DeliveredOnce"
PROPS_BUILT_Q = "InfoNewestKept FifoKept OverflowKeepsNewest EvictionOnlyAtBound PerPeer"
INVS_BUILT_A = "TypeOK QueueBounded WellFormed NothingQueuedForAwake FrameFits DeliveredOnce"
PROPS_BUILT_A = "FrameAlwaysSendable InfoNewestKept FifoKept OverflowKeepsNewest EvictionOnlyAtBound PerPeer NoNeedlessLoss"

RECV_BUILT = ["DevWithdrawIgnoresSequence", "DevReplayResurrectsWithdrawn"]           # G01's receiver deviations
AS_BUILT_Q = ["DevNoCommandSlot", "DevNoFrameSplit"] + RECV_BUILT                      # queue type + codec + receiver
FULLTABLE = ["DevAgentNeverQueues", "DevSleeperDropsTable"]                            # the as-built resync design
AS_BUILT_A = FULLTABLE + ["DevSeenBlocksResync"] + RECV_BUILT                          # whole agents
AS_BUILT_A_REPAIRED = FULLTABLE + RECV_BUILT                                           # ... if the seen cache did not block
MUTATIONS = ["DevQueueOlderOvertakes", "DevNotClearedAfterDelivery", "DevOverflowDropsNewest", "DevQueueForAwakePeer"]
ALL_DEVS = MUTATIONS + ["DevAgentNeverQueues", "DevSleeperDropsTable", "DevSeenBlocksResync", "DevNoCommandSlot",
                        "DevNoFrameSplit"] + RECV_BUILT

# finding keys (known_findings.d/G04.json); DevSleeperDropsTable is the other half of the as-built resync design and
# is reported together with DevAgentNeverQueues
SITE = {
    "DevAgentNeverQueues": "agent.handlePeerConnected",
    "DevSleeperDropsTable": "agent.handlePeerConnected",
    "DevSeenBlocksResync": "HandleRouteAdvertise",
    "DevNoCommandSlot": "StateQueue",
    "DevNoFrameSplit": "StateQueue.GetAndClear",
    "DevWithdrawIgnoresSequence": "handleQueuedState",
    "DevReplayResurrectsWithdrawn": "handleQueuedState",
}
KEYDEV = {"DevSleeperDropsTable": "DevAgentNeverQueues"}


def key_of(dev):
    d = KEYDEV.get(dev, dev)
    return "SleepQueue:%s:%s" % (d, SITE[d])


def S(xs):
    return "{%s}" % ",".join('"%s"' % x for x in xs)


def consts(tier, kind):
    """kind: 'replay' (edges emitted), 'big' (model checking only), 'sens' (sensitivity runs)"""
    c = dict(Peers=S(["s"]), Origins=S(["o1", "o2"]), MaxSeq=2, WdOrigins=S(["o1"]), WdSeqs="{1}", InfoOrigins=S(["o1"]),
             Cmds=S(["c1"]), Bound=2, FrameCap=2, MaxLive=3, MaxSleeps=2, MaxExpire=1, MaxHolderWake=1, Ghost="TRUE")
    if kind == "sens":
        c.update(MaxLive=4, MaxSeq=2, WdSeqs="{2}", MaxHolderWake=0)
    if kind == "big":
        c.update(Peers=S(["s", "t"]), MaxSeq=3, WdSeqs="{2}", MaxLive=4, FrameCap=3)
    if tier == "thorough" and kind == "replay":
        c.update(MaxSeq=3, WdSeqs="{2}", InfoOrigins=S(["o1"]), MaxLive=3)
    return c


def cfg(c, dev=(), emit=False, invs="", props=""):
    return R.cfg_text(c, dev=dev, emit=emit, invs=invs, props=props)


GHOST_INVS = ("SleeperLearnsNewest", "DeliveredOnce", "NoNeedlessLoss")


def job(name, c, dev=(), emit=False, invs="", props="", workers=2, heap="4g", expect_violation=False):
    """emit runs leave the ghost variables out (4 x fewer transitions to print) and skip the invariants that need them"""
    c = dict(c)
    if emit:
        c["Ghost"] = "FALSE"
        invs = " ".join(i for i in invs.split() if i not in GHOST_INVS)
        props = " ".join(i for i in props.split() if i not in GHOST_INVS)
    return dict(module=MODULE, name=name, cfg=cfg(c, dev, emit, invs, props), workers=workers, heap=heap,
                expect_violation=expect_violation)


# ------------------------------------------------------------------ relations and covers
def is_init(s):
    h = s["hold"]
    if h["seen"] or h["iseen"] or h["cseen"] or h["pend"] != "none" or any(h["tab"].values()) or any(h["info"].values()):
        return False
    for p, m in s["mode"].items():
        r, q = s["rcv"][p], s["q"][p]
        if m != "awake" or s["draining"][p] or s["msg"][p] or q["adv"] or q["wd"] or q["info"] or q["cmd"] != "none":
            return False
        if r["seen"] or r["iseen"] or r["cseen"] or any(r["tab"].values()) or any(r["tomb"].values()) or any(r["info"].values()):
            return False
    return True


def base_act(a):
    b = {"act": a["act"]}
    for k in ("f", "p"):
        if k in a:
            b[k] = a[k]
    return b


def doc_of(edges, c, label, keep=None, max_paths=None, max_len=60):
    """path cover of a relation as a compact document for the harnesses"""
    es = [e for e in edges if keep is None or keep(e)]
    doc, npaths, nnodes, nedges, nsteps = R.compact_paths(es, is_init, max_len=max_len)
    if max_paths is not None and len(doc["paths"]) > max_paths:
        doc["paths"] = doc["paths"][:max_paths]
        npaths, nsteps = len(doc["paths"]), sum(len(p["steps"]) for p in doc["paths"])
    doc.update(label=label, bound=c["Bound"], framecap=c["FrameCap"], peers=json.loads(c["Peers"].replace("{", "[").replace("}", "]")),
               origins=json.loads(c["Origins"].replace("{", "[").replace("}", "]")),
               cmds=json.loads(c["Cmds"].replace("{", "[").replace("}", "]")), maxseq=c["MaxSeq"])
    return doc, dict(paths=npaths, nodes=nnodes, edges=nedges, steps=nsteps)


def outcomes(edges):
    """which queue outcomes / actions the relation exercises (non-vacuity of the bounded instance)"""
    acts, outs = {}, {}
    for e in edges:
        a = e["a"]
        acts[a["act"]] = acts.get(a["act"], 0) + 1
        if a["act"] == "Live":
            for o in a["out"].values():
                outs[o] = outs.get(o, 0) + 1
        if a["act"] == "Deliver":
            k = "deliver-" + a["res"] + ("-more" if a.get("more") else "")
            outs[k] = outs.get(k, 0) + 1
    return acts, outs


# ------------------------------------------------------------------ classification
def index(edges):
    return R.index_relation(edges, base_act)


def lookup(mm, doc, built_ix, proj, same_obs):
    """mm: mismatch record {path, step, real, obs}; returns (s, a, devs) where devs is the union of the `dev` labels of
    the as-built edges from the same pre-state with the same base action whose post-state projection and observation
    equal what the real code did (None if there is no such edge)."""
    p = doc["paths"][mm["path"]]
    si = mm["step"]
    if si < 0:
        return None, None, None
    s = doc["states"][p["init"] if si == 0 else p["steps"][si - 1]["t"]]
    a = p["steps"][si]["a"]
    cands = built_ix.get((vf.canon(s), vf.canon(base_act(a))), [])
    devs = None
    for e in cands:
        if vf.canon(proj(e["t"])) == vf.canon(mm["real"]) and same_obs(e["a"], mm.get("obs") or {}):
            devs = set(devs or ()) | set(e["a"].get("dev", []))
    return s, a, (sorted(devs) if devs is not None else None)


def slim(a):
    a = dict(a)
    a.pop("dev", None)
    return json.dumps(a, sort_keys=True)[:300]
