# G03 - composed system model (specification growth, not one of the 39 listed properties)
#
# spec/System.tla composes what PeerReg, Flood, Relay and SleepFSM describe separately (agents, links, connection
# generations, route tables learned by flooding, tunnels with per-hop relay entries, sleep) and states system-level
# invariants S1-S5.  This check
#   1. model-checks the ideal design exhaustively on 3 agents (line; thorough: + triangle, + every interleaving) and by
#      simulation on 4 agents (thorough), and verifies that every deviation action is caught (sensitivity);
#   2. records seeded random system-level scenarios on REAL agents (cmesh) and lets TLC decide whether every recorded
#      execution is a behaviour of System.tla (TraceSystem.tla), S1-S5 evaluated on every state of the search;
#   3. runs two directed scenarios: a held-back disconnect handler (hook peer.read.disconnect) at a sleeping transit
#      (the defect it showed, System:S2relay:DevSkipCleanupWhenSuperseded, is repaired by 3c80d8e: the scenario must now be
#      accepted by the ideal design; were it rejected again the finding is reported as a VIOLATION), and
#      a one-hop tunnel with a unit in flight when its connection dies (frame held back by cmesh).
# Interpretations (permissive side):
#   * S1 is about the connections a tunnel is BUILT over (records created over registered connections, consistent
#     generations at establishment); a hop may be lost again behind the acknowledgement - that is asynchrony, not a defect.
#   * S2 covers routes and relay entries.  Ingress stream records and exit connection records of a tunnel whose path
#     broke are not touched by the disconnect handling in the code (the application's close / the exit handler's idle
#     timeout reclaim them, DESIGN C17); the model keeps them the same way and the check does not flag them.
#   * S3: convergence at quiescence is required for origins that announced after the last topology change.  (The
#     disconnect handling forgets the seen-cache entries of the routes it removes - 0a48014 - so the table replay of a
#     reconnecting peer restores them; that is modelled and validated by the traces.  A route lost at b is not restored
#     from another neighbour that still holds it, so nothing stronger is an invariant.)
# A recorded execution that System.tla rejects is re-validated with one deviation enabled at a time to name the cause.
import json, os
import vf
import _system as S
from _ctlreg import par


def run(ctx):
    quick = ctx.quick()
    inst, ideal_job, dev_job, sim_job = S.model(ctx)
    names = list(inst)
    nscen, nops, nshard, ntopo = (24, 10, 4, 4) if quick else (160, 16, 8, 6)
    env = {"ZZV_SCEN": nscen, "ZZV_OPS": nops, "ZZV_NSHARD": nshard, "ZZV_NTOPO": ntopo, "ZZV_SETTLE_MS": 30}
    jobs = [ideal_job(n) for n in names] + [dev_job(d) for d in S.DEVS]
    if not quick:
        jobs.append(sim_job)
    nmodel = len(jobs)
    for i in range(nshard):
        jobs.append(S.record_job("TestZZVSystemTrace", "sys-%d.ndjson" % i, dict(env, ZZV_SHARD=i)))
    jobs.append(S.record_job("TestZZVSystemResurrect", "sys-resurrect.ndjson", env))
    jobs.append(S.record_job("TestZZVSystemSuperseded", "sys-directed.ndjson", env))
    res = par(ctx, jobs)
    mdl = S.check_model_results(ctx, names, res[:len(names)], res[len(names):len(names) + len(S.DEVS)],
                                res[nmodel - 1] if not quick else None)
    shards = res[nmodel:nmodel + nshard]
    directed_file, directed_sum = res[-1]
    resur_file, resur_sum = res[-2]

    # ---- the recorded random executions
    all_events = []
    for fn, summ in shards:
        all_events.extend(json.loads(x) for x in open(fn) if x.strip())
    scen_total = sum(s["scenarios"] for _, s in shards)
    if scen_total != nscen:
        raise vf.Infra("recorded %d of %d scenarios" % (scen_total, nscen))
    if os.environ.get("VERIF_CORRUPT"):
        # binding self-test: one logged field is falsified; the run must not end with exit 0
        for e in all_events:
            if e.get("ev") == "Fail":
                a = e["l"][0]
                e["st"]["rt"][a].append(["d", "p", e["l"][1], 1])
                ctx.log("VERIF_CORRUPT: added a route via the failed link to the state logged after", S.brief(e))
                break
    topo_count = {}
    for e in all_events:
        if e["ev"] == "Reset":
            topo_count[e["topo"]] = topo_count.get(e["topo"], 0) + 1
    opcount = {}
    for e in all_events:
        opcount[e["ev"]] = opcount.get(e["ev"], 0) + 1

    def write_trace(events, name):
        fn = os.path.join(ctx.work, name)
        vf.write_ndjson(fn, events)
        return fn

    # quick: a fast pass over one file (states more than 1 event behind the furthest one are not expanded); thorough: the
    # full search (every order of the silent steps, S1-S5 on every state) per shard, pruned search when it does not
    # finish in time.  A scenario a pass gets stuck in is validated on its own with the full search before anything is
    # said about it.
    scens = S.split_scenarios(all_events)
    lag0 = 1 if quick else 0
    full_to = 420            # thorough: the full search per shard, pruned search (lag 3) when it does not finish in time
    if quick:
        groups = [scens]
    else:
        groups = []
        for fn, _ in shards:
            groups.append(S.split_scenarios([json.loads(x) for x in open(fn) if x.strip()]))
        if os.environ.get("VERIF_CORRUPT"):
            groups = [scens]
    st = {"accepted": 0, "rejected": [], "full_runs": 0, "rerecorded": [], "skipped": 0, "n": 0}
    dir_skipped = directed_sum.get("skipped")
    vjobs = [S.validate_job(write_trace([e for sc in g for e in sc], "group-%d.ndjson" % k), "group%d" % k, lag=lag0,
                            timeout=3000 if quick else full_to, fallback_lag=None if quick else 3)
             for k, g in enumerate(groups)]
    vjobs += [S.validate_job(resur_file, "resurrect"),
              S.validate_job(resur_file, "resurrect-dev", dev=["DevEndpointSurvivesReconnect"], check=False)]
    if not dir_skipped:
        vjobs += [S.validate_job(directed_file, "directed"),
                  S.validate_job(directed_file, "directed-dev", dev=["DevSkipCleanupWhenSuperseded"], check=False)]
    vd = par(ctx, vjobs)
    v_dir, v_dirdev = (vd[-2], vd[-1]) if not dir_skipped else ({"accepted": None}, {"accepted": None})
    v_res, v_resdev = vd[len(groups)], vd[len(groups) + 1]
    search = {"lag_per_group": [v.get("lag") for v in vd[:len(groups)]], "states_per_group": [v.get("states") for v in vd[:len(groups)]]}

    def settle_group(rest, v):
        """rest: scenarios, v: validation result of their concatenation"""
        for rnd in range(1, 8):
            if v["accepted"]:
                st["accepted"] += len(rest)
                return
            j, pos = S.locate(rest, S.stuck_index(v))
            st["accepted"] += j
            st["n"] += 1
            tag = st["n"]
            scen_j = rest[j]
            vfull = par(ctx, [S.validate_job(write_trace(scen_j, "stuck-%d.ndjson" % tag), "stuck%d" % tag, lag=0)])[0]
            st["full_runs"] += 1
            # a rejection may be an artefact of the recording (the state was logged before the mesh was really quiet on
            # this loaded machine): the scenario is recorded again (same seed = same operations) with a much longer
            # settle time and only a rejection that persists is reported
            for settle_ms in (400,):
                if vfull["accepted"] or os.environ.get("VERIF_CORRUPT"):     # (a falsified log is not recorded again)
                    break
                idx = scen_j[0].get("scenario", -1)
                fn, _ = par(ctx, [S.record_job("TestZZVSystemTrace", "rerec-%d-%d.ndjson" % (tag, settle_ms),
                                               dict(env, ZZV_NSHARD=1, ZZV_SHARD=0, ZZV_ONLY=idx, ZZV_SETTLE_MS=settle_ms))])[0]
                scen_j = [json.loads(x) for x in open(fn) if x.strip()]
                st["rerecorded"].append({"scenario": idx, "settle_ms": settle_ms})
                vfull = par(ctx, [S.validate_job(fn, "rerec%d-%d" % (tag, settle_ms), lag=0)])[0]
                st["full_runs"] += 1
            if vfull["accepted"]:
                st["accepted"] += 1
            else:
                _, pos = S.locate([scen_j], S.stuck_index(vfull))
                st["rejected"].append((scen_j, pos, vfull["violated"]))
            rest = rest[j + 1:]
            if not rest:
                return
            if len(st["rejected"]) >= 2:      # enough to report; the remaining scenarios are not validated in this run
                st["skipped"] += len(rest)
                return
            v = par(ctx, [S.validate_job(write_trace([e for sc in rest for e in sc], "rest-%d.ndjson" % tag), "rest%d" % tag,
                                         lag=lag0)])[0]
        raise vf.Infra("too many recorded scenarios needed a second look; findings so far: %d" % len(st["rejected"]))

    for g, v in zip(groups, vd[:len(groups)]):
        if len(st["rejected"]) >= 2:
            st["skipped"] += len(g)
            continue
        settle_group(g, v)
    accepted_scen, rejected, full_runs, rerecorded, skipped = (st["accepted"], st["rejected"], st["full_runs"], st["rerecorded"],
                                                              st["skipped"])

    for n, (scen, pos, how) in enumerate(rejected):
        ev = scen[pos] if 0 <= pos < len(scen) else {}
        sf = write_trace(scen, "rejected-%d.ndjson" % n)
        cands = ["DevRouteKeptAfterDisconnect", "DevRelayKeptAfterDisconnect", "DevSleepKeepsConnections",
                 "DevRelayDuplicatesData", "DevNoForwardToReconnected", "DevSkipCleanupWhenSuperseded",
                 "DevEndpointSurvivesReconnect"]
        cres = par(ctx, [S.validate_job(sf, "rej%d-%s" % (n, d), dev=[d], check=False) for d in cands])
        expl = [d for d, r in zip(cands, cres) if r["accepted"]]
        art = {"topology": S.brief(scen[0]) if scen else None, "event_index": pos, "event": S.brief(ev),
               "logged_state": ev.get("st"), "ops": [S.brief(e) for e in scen[:pos + 1]], "how": how, "explained_by": expl}
        if how not in (None, "rejected"):
            ctx.finding("System:%s:trace-invariant:%s" % (how, ev.get("ev")),
                        "a recorded execution of real agents reaches a state that violates %s of System.tla (during %s)" % (
                            how, S.brief(ev)), art)
        elif expl:
            d = expl[0]
            ctx.finding("System:%s:%s:%s" % (S.DEV_INV[d], d, S.DEV_SITE[d]),
                        "recorded execution on real agents is not a behaviour of System.tla: after %s the logged state is only "
                        "reachable with deviation %s (violates %s)" % (S.brief(ev), d, S.DEV_INV[d]), art)
        else:
            ctx.finding("System:unexplained:%s" % ev.get("ev"),
                        "recorded execution on real agents is not a behaviour of System.tla: the state logged after %s "
                        "cannot be reached (no deviation explains it)" % S.brief(ev), art)

    # ---- the directed scenario (disconnect handling of the sleeper held back until it has reconnected)
    directed = {"accepted_by_ideal": v_dir["accepted"], "accepted_with_DevSkipCleanupWhenSuperseded": v_dirdev["accepted"],
                "relay_left_at_b": directed_sum.get("relay_left_at_b")}
    if dir_skipped:
        directed["skipped"] = dir_skipped
        if not rejected:
            raise vf.Infra("the directed scenario could not be set up (%s) although every recorded scenario is accepted" % dir_skipped)
    elif not v_dir["accepted"]:
        devs = v_dir["events"]
        idx = v_dir["hw"] or len(devs)
        ev = devs[min(idx, len(devs)) - 1]
        art = {"ops": [S.brief(e) for e in devs[:idx]], "logged_state": ev.get("st"), "violated": v_dir["violated"],
               "relay_left_at_b": directed_sum.get("relay_left_at_b")}
        if v_dirdev["accepted"]:
            d = "DevSkipCleanupWhenSuperseded"
            ctx.finding("System:%s:%s:%s" % (S.DEV_INV[d], d, S.DEV_SITE[d]),
                        "line a-b-c, tunnel a->c relayed by b; b sleeps, wakes and reconnects before its read loops have run "
                        "handleDisconnect for the old connections: the handler finds a newer connection registered and skips the "
                        "agent's clean-up, b keeps %s relay entr%s of the dead connections for ever (S2; stream ids of the new "
                        "connections can collide with them)" % (directed_sum.get("relay_left_at_b"),
                                                                "y" if directed_sum.get("relay_left_at_b") == 1 else "ies"), art)
        else:
            ctx.finding("System:unexplained:directed:%s" % ev.get("ev"),
                        "directed sleep/wake scenario is not a behaviour of System.tla at %s" % S.brief(ev), art)

    # ---- the directed scenario "a unit in flight is lost with the connection of a one-hop tunnel"
    resurrect = {"accepted_by_ideal": v_res["accepted"], "accepted_with_DevEndpointSurvivesReconnect": v_resdev["accepted"],
                 "sent": resur_sum.get("sent"), "target_got": resur_sum.get("target_got"), "ingress_got": resur_sum.get("ingress_got")}
    if not v_res["accepted"]:
        devs = v_res["events"]
        idx = S.stuck_index(v_res)
        ev = devs[min(idx, len(devs)) - 1]
        art = {"ops": [S.brief(e) for e in devs[:idx]], "logged_state": ev.get("st"), "violated": v_res["violated"],
               "target_got": resur_sum.get("target_got"), "ingress_got": resur_sum.get("ingress_got")}
        if v_resdev["accepted"]:
            d = "DevEndpointSurvivesReconnect"
            ctx.finding("System:%s:%s:%s" % (S.DEV_INV[d], d, S.DEV_SITE[d]),
                        "a - b, exit at b, one-hop tunnel a->b: unit 2 is in flight when the connection a-b dies, the agents "
                        "reconnect, the application writes unit 3 on the same tunnel: the target receives units %s and the "
                        "ingress application reads back %s (bytes missing in the middle of the stream, S4): the disconnect "
                        "handling leaves the ingress stream and the exit connection in place and both are found again by the "
                        "bare stream id over the NEW connection" % (resur_sum.get("target_got"), resur_sum.get("ingress_got")), art)
        else:
            ctx.finding("System:unexplained:resurrect:%s" % ev.get("ev"),
                        "directed one-hop-tunnel scenario is not a behaviour of System.tla at %s" % S.brief(ev), art)

    tot_states = sum(v["states"] for v in mdl["instances"].values())
    tot_trans = sum(v["transitions"] for v in mdl["instances"].values())
    sample_scen = scens[len(scens) // 2]
    ctx.evidence("model_checking",
                 assumptions=["operation-level binding: every recorded operation starts at quiescence of the mesh; races between an "
                              "operation and frames in flight are covered by the model checker only (instances *-race), except the "
                              "directed scenario with a held-back disconnect handler",
                              "stream ids of re-established connections are kept apart by the harness (bare-id collisions are C16/C17)",
                              "sleep: Awake/Sleeping only (poll interval 1 h, no poll windows); one sleep-enabled agent per scenario",
                              "route TTL expiry and exit idle timeouts are model actions only (2 h / 5 min in the recorded runs)",
                              "bounded model: 3 agents exhaustive (%s), 1 exit route, 1 tunnel, 1 link failure + reconnect or 1 "
                              "sleep/wake%s" % (", ".join(names), "" if quick else "; 4 agents by simulation")],
                 states=tot_states, transitions=tot_trans, exhaustive=True,
                 instances=mdl["instances"], deviations_caught=mdl["caught"], simulation=mdl.get("simulation"),
                 traces_validated_against_impl=accepted_scen + (1 if v_dir["accepted"] or v_dirdev["accepted"] else 0)
                 + (1 if v_res["accepted"] or v_resdev["accepted"] else 0),
                 scenarios_recorded=nscen, scenarios_accepted=accepted_scen, scenarios_rejected=len(rejected), scenarios_not_validated=skipped,
                 resurrect=resurrect, trace_search=search, trace_events=len(all_events), full_search_reruns=full_runs, rerecorded=rerecorded, ops=opcount, topologies=topo_count, directed=directed,
                 samples=[{"scenario": [S.brief(e) for e in sample_scen[:14]]},
                          {"logged_state": (sample_scen[-1].get("st") if sample_scen else None)}])
