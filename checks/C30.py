# C30 - Sleep mode follows its state machine for every interleaving
#
# Interpretation (permissive where the statement leaves a choice):
#  * a "poll activity" starts when Manager.Poll takes the state lock (PollBegin); a timer that fired before a wake but
#    whose goroutine reaches the lock only afterwards is a new activity of the next period and is not constrained;
#  * "reconnects / disconnects / puts back to sleep" = the OnPoll callback, the OnPollEnd callback, the
#    POLLING->SLEEPING transition with re-arming of the timer; "started earlier" = its PollBegin precedes the
#    completion of the wake;
#  * the state file may say SLEEPING while the manager is POLLING (equivalent by design); before the first transition
#    there is no file; while a Sleep / Wake call is still inside its callback the transition is not completed yet.
#  * a restart (new manager + LoadState) is not a transition: it must reproduce the persisted state, and every later
#    completed transition must be persisted as well.
#  * agent level: "disconnects" = Agent.doPoll ending its poll window with DisconnectAll / closing its listeners while
#    the sleep state is AWAKE (a wake completed during the window, by whatever path).
# Findings protocol: a replay mismatch is looked up in the transition relation TLC emits for each single-deviation
# variant of the model.  The class listed as `known` in known_findings.d/C30.json (OnPoll invoked after a completed
# wake, key SleepFSM:DevPollCallbackAfterWake:sleep.Manager.Poll) prints KNOWN-FINDING; because replay stops a path at
# its first mismatch, the transitions behind a known deviation are then covered by a second replay against the
# relation with exactly the known deviations enabled, where every mismatch is a violation.
import vf, _replay as R, _sleepfsm as S


def classify_and_report(ctx, mism, dev_ix, explained, ideal_ix, suffix=""):
    hit_known = set()
    # shortest schedules first: the first mismatch of a class is the one reported
    for mm in sorted(mism, key=lambda m: len(m.get("prefix", []))):
        devs = R.classify(mm, dev_ix, S.base_act, S.proj, S.same_result, ideal_ix) if mm.get("step", -1) >= 0 else []
        a = mm.get("a", {})
        if devs:
            dev = devs[0]
            key = S.key_of(dev)
        else:
            dev = None
            key = "SleepFSM:unexplained%s:%s:%s" % (suffix, a.get("act"), mm.get("real_res"))
        explained[key] = explained.get(key, 0) + 1
        if not ctx.finding(key, S.describe(mm), mm) and dev:
            hit_known.add(dev)
    return hit_known


def run(ctx):
    c, ideal, caught, rels, agent = S.model(ctx)
    binpath = S.build(ctx)
    doc, npaths, nnodes, nedges, nsteps = R.compact_paths(ideal.edges, S.is_init)
    ctx.log("path cover: %d paths, %d steps, %d states, %d transitions" % (npaths, nsteps, nnodes, nedges))
    nproc = 2 if ctx.quick() else 6
    summ, mism = S.replay(ctx, binpath, doc, "ideal", nproc=nproc)
    if R.total(summ, "steps") < nsteps and not mism:
        raise vf.Infra("replay executed %d of %d steps without reporting a mismatch" % (R.total(summ, "steps"), nsteps))
    explained = {}
    dev_ix = {d: R.index_relation(r.edges, S.base_act) for d, r in rels.items()}
    ideal_ix = R.index_relation(ideal.edges, S.base_act)
    known = classify_and_report(ctx, mism, dev_ix, explained, ideal_ix)
    extra = {"paths": 0, "steps": 0, "mismatches": 0, "states": 0, "transitions": 0}
    if known:
        # the code has (exactly) the known deviations: its behaviour behind them is checked against the relation of the
        # model with these deviations enabled; nothing is tolerated there
        kd = sorted(known)
        if len(kd) == 1:
            krel = rels[kd[0]]
        else:
            krel = R.tlc_many(ctx, [dict(module=S.MODULE, name="relknown", workers=2, cfg=R.cfg_text(c, dev=kd, emit=True))])[0]
        kdoc, kp, kn, ke, ks = R.compact_paths(krel.edges, S.is_init)
        ksumm, kmism = S.replay(ctx, binpath, kdoc, "known", nproc=nproc)
        extra = {"paths": kp, "steps": R.total(ksumm, "steps"), "mismatches": len(kmism), "states": kn, "transitions": ke}
        if kmism:
            jobs = [dict(module=S.MODULE, name="relk" + d, workers=1, cfg=R.cfg_text(c, dev=kd + [d], emit=True))
                    for d in S.MGR_DEVS if d not in kd]
            res = R.tlc_many(ctx, jobs)
            ix2 = {d: R.index_relation(r.edges, S.base_act) for d, r in zip([d for d in S.MGR_DEVS if d not in kd], res)}
            classify_and_report(ctx, kmism, ix2, explained, R.index_relation(krel.edges, S.base_act), suffix="-behind-known")
    # ---- agent level: the poll cycle of a whole agent (Agent.doPoll) on the in-memory mesh ---------------------------
    # reference = the small instance's relation, with the known manager deviation if the manager showed it above
    ref = "Known" if known else "Ideal"
    aedges = S.agent_edges(agent["agent" + ref].edges)
    adoc, ap, an, ae, asteps = R.compact_paths(aedges, S.is_init)
    window = 2000 if ctx.quick() else 2500
    asumm, amism = S.agent_replay(ctx, adoc, "ref", window)
    if asumm["steps"] < asteps and not amism:
        raise vf.Infra("agent replay executed %d of %d steps without reporting a mismatch" % (asumm["steps"], asteps))
    if amism:
        aix = {"DevAgentPollEndIgnoresWake": R.index_relation(S.agent_edges(agent["agentDev" + ref].edges), S.base_act)}
        ref_ix = R.index_relation(aedges, S.base_act)
        for mm in sorted(amism, key=lambda m: len(m.get("prefix", []))):
            devs = R.classify(mm, aix, S.base_act, S.agent_proj, S.agent_same_result, ref_ix) if mm.get("step", -1) >= 0 else []
            a = mm.get("a", {})
            key = S.key_of(devs[0]) if devs else "SleepFSM:unexplained-agent:%s:%s" % (a.get("act"), mm.get("real_res"))
            explained[key] = explained.get(key, 0) + 1
            ctx.finding(key, S.agent_describe(mm), mm)
    sample = R.expand_path(doc, len(doc["paths"]) // 2)
    asample = R.expand_path(adoc, 0)
    ctx.evidence("model_checking",
                 assumptions=["bounded model: %d Sleep/Wake calls (any callers: the calls are atomic under stateMu), %d timer "
                              "firings / concurrent poll activities" % (c["MaxCalls"], c["MaxPolls"]),
                              "timer firing = a goroutine calling Manager.Poll (what the timer function does); real timers "
                              "are 24 h away; PollDuration 1 ms",
                              "OnSleep/OnWake/OnPollEnd run under the state lock (atomic with their call); the OnPoll "
                              "callback is a holding point",
                              "no crash during persistState (that is C34); Manager.Stop not modelled; Restart = new Manager + "
                              "LoadState on the same state file, only when no poll activity is in flight",
                              "agent level: a real agent with a peer on the in-memory mesh, Sleep/Wake as whole calls "
                              "(TriggerSleep / TriggerWake), %d ms poll window; the window is the only real-time element, a "
                              "step that comes too late in it is an infrastructure failure" % window],
                 states=ideal.distinct, transitions=nedges, traces_validated_against_impl=npaths + extra["paths"] + ap,
                 exhaustive=True, replayed_paths=R.total(summ, "paths"), replayed_steps=R.total(summ, "steps"),
                 replay_mismatches=len(mism), state_file_reads=R.total(summ, "state_file_reads"),
                 poll_steps_through_gates=R.total(summ, "poll_steps_through_gates"),
                 tlc_generated=ideal.generated, deviations_caught=caught, mismatches_by_class=explained,
                 known_deviation_relation=extra,
                 agent_level={"reference": "agent" + ref, "constants": S.agent_consts(ctx), "states": an, "transitions": ae,
                              "paths": ap, "steps": asumm["steps"], "poll_windows": asumm["poll_windows"],
                              "mismatches": len(amism)},
                 samples=[{"replay_path": [s["a"] for s in sample["steps"]][:16]},
                          {"agent_replay_path": [s["a"] for s in asample["steps"]]}])
