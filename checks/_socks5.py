# Socks5.tla / Socks5Req.tla <-> internal/socks5 (+ authenticator construction in internal/agent)   (C21, C22, C23)
#
# Helpers kept here (nothing was added to lib/vf.py):
#   all_programs(edges)   every maximal path of TLC's (acyclic) transition graph = every client token program
#   attack_paths(rel)     the scenarios of the relation with all deviations enabled that rely on a deviation
#   explain(rel, ...)     which deviation of the spec reproduces an observed real run
import json, os
import vf

HS_INVS = "TypeOK ExecRequiresAuth NoAuthOnlyWhenOff AuthedIsGenuine OneReply"
UDP_INVS = "TypeOK OnlyOwnerRelayed RepliesOnlyToOwner ClientIsOwner OneReply"
COMMON = "common/common_test.go.tmpl"


def cfg(scope, dev=(), emit=True, maxdg=0, maxmr=0, invs=HS_INVS):
    return ('CONSTANTS Scope = "%s" Dev = {%s} Emit = %s MaxDgrams = %d MaxReplies = %d\n'
            "INIT Init\nNEXT Next\nVIEW view\nACTION_CONSTRAINT EmitEdge\n%s" % (
                scope, ",".join('"%s"' % d for d in dev), "TRUE" if emit else "FALSE", maxdg, maxmr,
                ("INVARIANTS " + invs + "\n") if invs else ""))


def model(ctx, scope, invs, devs, maxdg=0, maxmr=0):
    """TLC: the ideal spec satisfies invs on the bounded instance; each deviation in devs = {name: invariant that must
    catch it} is caught.  Returns (ideal result with edges, {dev: violated invariant}, relation with all deviations
    enabled - its steps are labelled with the deviation they rely on)."""
    ideal = ctx.tlc("Socks5", "MC.cfg", files={"MC.cfg": cfg(scope, maxdg=maxdg, maxmr=maxmr, invs=invs)},
                    name="Socks5-" + scope)
    if ideal.violated:
        raise vf.Infra("ideal Socks5 spec (%s) violates %s (specification error)" % (scope, ideal.violated))
    caught = {}
    for d, inv in devs.items():
        r = ctx.tlc("Socks5", "MCdev.cfg", expect_violation=True,
                    files={"MCdev.cfg": cfg(scope, dev=[d], emit=False, maxdg=maxdg, maxmr=maxmr, invs=inv)})
        if not r.violated:
            raise vf.Infra("deviation %s is not detected by invariant %s (vacuous model)" % (d, inv))
        caught[d] = r.violated
    devrel = ctx.tlc("Socks5", "MCrel.cfg",
                     files={"MCrel.cfg": cfg(scope, dev=sorted(devs), emit=True, maxdg=maxdg, maxmr=maxmr, invs="")})
    return ideal, caught, devrel


def attack_paths(devrel, cap=None, rng=None):
    """Maximal paths of the deviation relation that rely on a deviation: the scenarios that decide whether the real
    code has that defect.  Returns [(deviation of the first deviating step, path)]."""
    paths, total, _, _ = all_programs(devrel.edges, cap=cap, rng=rng)
    out = []
    for p in paths:
        devs = [s["a"].get("dev") for s in p["steps"] if s["a"].get("dev")]
        if devs:
            out.append((devs[0], p))
    return out


def graph(edges):
    nodes, out, has_in = {}, {}, set()
    seen = set()
    for e in edges:
        ks, kt = vf.canon(e["s"]), vf.canon(e["t"])
        ek = (ks, vf.canon(e["a"]), kt)
        if ek in seen:
            continue
        seen.add(ek)
        nodes.setdefault(ks, e["s"])
        nodes.setdefault(kt, e["t"])
        out.setdefault(ks, []).append((e["a"], kt))
        has_in.add(kt)
    inits = sorted(k for k in nodes if k not in has_in)
    return nodes, out, inits, len(seen)


def all_programs(edges, cap=None, rng=None):
    """Every maximal path (initial state -> state without successor) of the transition graph.  The graph of Socks5
    is acyclic (every step consumes a client token or a bounded counter).  With cap: a seeded sample of the maximal
    paths that still covers every edge."""
    nodes, out, inits, nedges = graph(edges)
    for k in out:
        out[k].sort(key=lambda x: (vf.canon(x[0]), x[1]))
    count = {}

    def npaths(k, stack=()):
        if k in count:
            return count[k]
        if k in stack:
            raise vf.Infra("all_programs: transition graph has a cycle")
        succ = out.get(k, [])
        count[k] = 1 if not succ else sum(npaths(v, stack + (k,)) for _, v in succ)
        return count[k]

    total = sum(npaths(i) for i in inits)
    if cap is None or total <= cap:
        res = []

        def walk(k, acc, init):
            succ = out.get(k, [])
            if not succ:
                res.append({"init": nodes[init], "steps": [{"a": a, "t": nodes[v]} for a, v in acc]})
                return
            for a, v in succ:
                acc.append((a, v))
                walk(v, acc, init)
                acc.pop()
        for i in inits:
            walk(i, [], i)
        return res, total, nedges, True
    # sample: first an edge cover (vf.path_cover paths are prefixes; extend each to a maximal path), then random paths
    res, covered = [], set()
    def extend(k, steps, pick):
        while out.get(k):
            a, v = pick(out[k], k)
            covered.add((k, vf.canon(a), v))
            steps.append({"a": a, "t": nodes[v]})
            k = v
        return steps
    def greedy(succ, k):
        for a, v in succ:
            if (k, vf.canon(a), v) not in covered:
                return a, v
        return succ[rng.randrange(len(succ))]
    # greedy cover: repeatedly walk from each init preferring uncovered edges (reaches everything in a DAG of this
    # shape because prefixes are chosen by a BFS to the nearest uncovered edge)
    paths, _, _ = vf.path_cover(edges)
    for p in paths:
        k = vf.canon(p["init"])
        steps = []
        for st in p["steps"]:
            kt = vf.canon(st["t"])
            covered.add((k, vf.canon(st["a"]), kt))
            steps.append({"a": st["a"], "t": st["t"]})
            k = kt
        res.append({"init": p["init"], "steps": extend(k, steps, greedy)})
    while len(res) < cap:
        i = inits[rng.randrange(len(inits))]
        res.append({"init": nodes[i], "steps": extend(i, [], lambda succ, k: succ[rng.randrange(len(succ))])})
    return res, total, nedges, False


def explain(devrel, init_pred, tokens, same):
    """Follow the observed token sequence through the relation with all deviations enabled; same(edge, i) tells whether
    the real step i looked like that edge.  Returns the first deviation the matching path relies on, None if the real
    run is not a path of the relation or relies on no deviation."""
    idx = {}
    init = None
    for e in devrel.edges:
        idx.setdefault((vf.canon(e["s"]), vf.canon(e["a"]["tok"])), e)
        if init is None and init_pred(e["s"]):
            init = e["s"]
    if init is None:
        return None
    cur, dev = init, None
    for i, tok in enumerate(tokens):
        e = idx.get((vf.canon(cur), vf.canon(tok)))
        if e is None or not same(e, i):
            return None
        dev = dev or e["a"].get("dev") or None
        cur = e["t"]
    return dev


def is_init(s, cfgrec=None):
    return s["phase"] in ("greet", "http") and s["method"] == "none" and s["exec"] == "" and s["assoc"] == "none" \
        and not s["sentValid"] and s["nconn"] == 1 and not s["warm"] and (cfgrec is None or s["cfg"] == cfgrec)


def edges_covered(paths, edges):
    """Does the set of replayed paths take every transition of the bounded model at least once?"""
    _, _, _, nedges = graph(edges)
    seen = set()
    for p in paths:
        k = vf.canon(p["init"])
        for st in p["steps"]:
            kt = vf.canon(st["t"])
            seen.add((k, vf.canon(st["a"]), kt))
            k = kt
    return len(seen) == nedges


def hs_programs(paths, attacks=()):
    """Programs for the handshake harness: token + predicted replies / executed command / phase per step.
    attacks: [(deviation, path)] scenarios from the deviation relation (judged by the property oracle only)."""
    out = []
    for i, (d, p) in enumerate([("", p) for p in paths] + list(attacks)):
        out.append({"id": i, "cfg": p["init"]["cfg"], "attack": d,
                    "steps": [{"tok": s["a"]["tok"], "rep": s["a"]["rep"], "ex": s["a"]["ex"], "phase": s["t"]["phase"]}
                              for s in p["steps"]]})
    return out


def hs_replay(ctx, variant, programs, name, dictionary=""):
    """dictionary: "" | "socks5" (string literals of internal/socks5 as credentials) | "all" (+ agent, config)"""
    inp = os.path.join(ctx.work, name + ".json")
    vf.write_json(inp, {"variant": variant, "programs": programs})
    r = ctx.gotest("agent", [COMMON, "agent/socks5auth_test.go"], "^TestZZVSocks5AuthReplay$",
                   env={"ZZV_IN": inp, "ZZV_DICT": dictionary}, timeout=1500)
    summ = r.of("summary")
    if not summ:
        raise vf.Infra("handshake replay harness produced no summary:\n" + r.out[-3000:])
    if r.of("infra"):
        raise vf.Infra("handshake replay (%s) could not drive the code: %s" % (variant, r.of("infra")[:3]))
    return summ[0], r.of("mismatch"), r.of("panic")


def trace_check(ctx, test, pkg, files, env, name, cfg="TraceSocks5.cfg"):
    out = os.path.join(ctx.work, name + ".ndjson")
    e = dict(env)
    e["ZZV_OUT"] = out
    r = ctx.gotest(pkg, files, "^%s$" % test, env=e, timeout=1500)
    summ = r.of("summary")
    if not summ:
        raise vf.Infra("trace harness %s produced no summary:\n%s" % (test, r.out[-3000:]))
    v = ctx.validate_trace("TraceSocks5", cfg, out, name=name)
    return summ[0], r, v
