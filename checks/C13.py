# C13 - A learned route's metric equals its hop count
#
# Interpretation: "hops along the recorded path" = length of the stored path (next hop ... origin); locally
# configured routes are announced with metric 0 (what the agent configures for exit, domain and forward routes; a
# route added through the API with an explicit base metric keeps that offset and is outside the check).  "A nearer
# exit is preferred" = the entry the table's Lookup returns has the fewest hops among the entries for that route.
import vf, _flood as F

DEVS = ["DevForwardKeepsReceivedMetric"]


def cfgs(ctx):
    l2, l3 = F.L(("a", "b")), F.L(("a", "b"), ("b", "c"))
    t3 = F.L(("a", "b"), ("b", "c"), ("a", "c"))
    out = [F.base("c13-stable3", F.A3, t3, initups=[l2, l3, t3], exits=[["a"], ["a", "c"]], routeids=["r1", "r2", "r3"]),
           # replay to a new peer carries the stored metrics
           F.base("c13-join3", F.A3, l3, initups=[l2], exits=[["a"], ["b"]], announcers=["a", "b"], conn=1)]
    if not ctx.quick():
        l4 = F.L(("a", "b"), ("b", "c"), ("c", "d"))
        r4 = F.L(("a", "b"), ("b", "c"), ("c", "d"), ("a", "d"))
        out.append(F.base("c13-stable4", F.A4, r4, initups=[l4, r4], exits=[["a"], ["a", "c"]], announcers=["a", "b", "c"]))
        out.append(F.base("c13-join4", F.A4, l4, initups=[l4[:2]], exits=[["a"]], announcers=["a", "b"], conn=1, exp=1))
    return out


def run(ctx):
    runs = F.model(ctx, cfgs(ctx))
    caught = F.sensitivity(ctx, DEVS)
    rep = F.replay(ctx, runs)
    ntr, nops = (25, 50) if ctx.quick() else (1200, 100)
    tr = F.traces(ctx, "TestZZVFloodTrace", {"ZZV_TRACES": ntr, "ZZV_OPS": nops}, "c13trace")
    F.report(ctx, "C13", rep, [tr])
    st, trn = F.coverage(runs)
    ctx.evidence("model_checking",
                 assumptions=["bounded model: all connected topologies with <= %d agents; CIDR, domain, forward and presence routes" % (3 if ctx.quick() else 4),
                              "local routes are configured with metric 0"],
                 states=st, transitions=trn, traces_validated_against_impl=rep["paths"] + tr["summary"]["traces"],
                 exhaustive=True, replayed_paths=rep["paths"], replayed_steps=rep["steps"], replay_edges=rep["edges"],
                 replay_forks=rep["forks"], replay_mismatches=len(rep["mismatches"]),
                 trace_events=tr["summary"]["events"], trace_highwater=tr["v"]["hw"], trace_accepted=tr["v"]["accepted"],
                 deviations_caught=caught, samples=rep["samples"] + [{"random_schedule": s} for s in tr["summary"]["sample"][:2]])
