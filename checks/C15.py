# C15 - Route announcements do not travel beyond the configured hop limit
#
# Interpretation: an agent whose distance from the origin along the announcement's path (= length of the received
# path) exceeds its routing.max_hops neither stores nor forwards the announcement.  An agent exactly max_hops away
# stores it and may forward it (the statement forbids storing/forwarding only "more than" max_hops away); the next
# agent drops it.  "Set in the routing configuration": the limit an Agent built from a configuration enforces is
# config.Routing.MaxHops (checked on real agent.New objects for limits 1, 2, 3, 16, 100, 255).
# The whole range 1..255 of the setting is in scope: the path and the seen-by list are counted in one byte on the
# wire, so with max_hops = 255 the agent at the limit would forward lists of 256 agents.  The model scales this bound
# (ListMod = 3 standing for 256, max_hops = ListMod-1); on the real code a chain of 260 flooders with max_hops 255 is
# run, a late joiner connects to the agent exactly at the limit (table replay), and the execution is validated by TLC
# with the real ListMod = 256.  Beyond the limit is judged by the distance in the graph of links, not by the recorded
# path (which is what gets corrupted).
import vf, _flood as F

DEVS = ["DevNoHopCheck", "DevPathCountWrap"]
CHAIN_INVS = "HopLimit PathIsDistance MetricIsHops PathsSimple ChainsSimple ProcessedOnce ForwardedOnce CountFits DecodedIntact"
WFILES = ["common/common_test.go.tmpl", "agent/flood_wiring_test.go"]


def cfgs(ctx):
    l3 = F.L(("a", "b"), ("b", "c"))
    t3 = F.L(("a", "b"), ("b", "c"), ("a", "c"))
    out = [F.base("c15-limit3", F.A3, t3, initups=[l3, t3], exits=[["a"]], announcers=["a", "b"], hopsset=[1], dup=1),
           F.base("c15-within3", F.A3, l3, initups=[l3], exits=[["a"]], announcers=["a", "c"], hopsset=[2]),
           F.base("c15-join3", F.A3, l3, initups=[l3[:1]], exits=[["a"]], announcers=["a"], hopsset=[1], conn=1),
           # the limit at the wire bound of the path / seen-by count: lists of ListMod agents cannot be written
           F.base("c15-wire4", F.A4, F.L(("a", "b"), ("b", "c"), ("c", "d")), initups=[F.L(("a", "b"), ("b", "c"), ("c", "d")), F.L(("a", "b"), ("b", "c"))],
                  exits=[["a"]], announcers=["a"], hopsset=[2], listmod=3, conn=1, dup=1, replay=False)]
    if not ctx.quick():
        l4 = F.L(("a", "b"), ("b", "c"), ("c", "d"))
        r4 = F.L(("a", "b"), ("b", "c"), ("c", "d"), ("a", "d"))
        out.append(F.base("c15-limit4", F.A4, r4, initups=[l4, r4], exits=[["a"]], announcers=["a", "b"], hopsset=[1, 2, 3], exp=1))
    return out


def wiring(ctx):
    g = ctx.gotest("agent", WFILES, "^TestZZVFloodHopLimitWiring$", timeout=900)
    recs = g.of("wiring")
    if not g.of("summary") or not recs:
        raise vf.Infra("wiring harness produced no records:\n" + g.out[-2000:])
    bad = []
    for r in recs:
        if "error" in r:
            raise vf.Infra("valid max_hops %s rejected by the configuration: %s" % (r["maxhops"], r["error"]))
        want = r["pathlen"] <= r["maxhops"]
        if r["stored"] != want:
            bad.append(r)
    if bad:
        beyond = [r for r in bad if r["stored"]]
        ctx.finding("Flood:DevNoHopCheck:agent-config-wiring",
                    "an Agent built from a configuration with routing.max_hops = k does not apply k to route flooding: %s" % (
                        "announcements %d hops long stored with max_hops %d (%d of %d cases beyond the limit stored)" % (
                            beyond[0]["pathlen"], beyond[0]["maxhops"], len(beyond), len([r for r in recs if r["pathlen"] > r["maxhops"]]))
                        if beyond else "announcements within the limit rejected: %s" % bad[:3]), bad[:10])
    return recs


def run(ctx):
    runs = F.model(ctx, cfgs(ctx))
    caught = F.sensitivity(ctx, DEVS)
    rep = F.replay(ctx, runs)
    recs = wiring(ctx)

    def chain_cfg(summ):
        names = summ["names"]
        n, h = summ["chain"], summ["maxhops"]
        links = [[names[i], names[i + 1]] for i in range(n - 1)] + [sorted([names[min(h, n - 1)], names[n]]),
                                                                    sorted([names[max(h - 1, 0)], names[n + 1]]),
                                                                    sorted([names[n + 1], names[n + 2]])]
        return dict(F.TRACE_CFG, agents=names, links=links, announcers=names)
    chain = F.traces(ctx, "TestZZVFloodChain", {"ZZV_CHAIN": 260, "ZZV_CHAIN_HOPS": 255}, "c15chain", invs=CHAIN_INVS, tcfg=chain_cfg)
    chains = [chain]
    if not ctx.quick():
        for n, h in ((258, 254), (40, 16), (300, 255)):
            chains.append(F.traces(ctx, "TestZZVFloodChain", {"ZZV_CHAIN": n, "ZZV_CHAIN_HOPS": h}, "c15chain%d" % h, invs=CHAIN_INVS, tcfg=chain_cfg))
    for ch in chains:
        s = ch["summary"]
        if s["holders"] < min(s["maxhops"], s["chain"] - 1):
            raise vf.Infra("chain harness: only %d agents learned the route (limit %d)" % (s["holders"], s["maxhops"]))
    ntr, nops = (25, 50) if ctx.quick() else (1200, 100)
    tr = F.traces(ctx, "TestZZVFloodTrace", {"ZZV_TRACES": ntr, "ZZV_OPS": nops, "ZZV_HOPS": "small"}, "c15trace")
    F.report(ctx, "C15", rep, [tr] + chains)
    st, trn = F.coverage(runs)
    ctx.evidence("model_checking",
                 assumptions=["bounded model: limits 1..%d on lines, triangles and rings longer than the limit; random schedules with "
                              "per-agent limits 1..3 on 5-6 agents" % (2 if ctx.quick() else 3),
                              "config -> flooder wiring observed on real Agent objects for limits 1, 2, 3, 16, 100, 255 "
                              "(paths longer than 255 agents cannot be encoded)",
                              "wire bound: model with ListMod = 3, max_hops = 2; real chain of 260 flooders with max_hops 255 + late joiner"],
                 states=st, transitions=trn, traces_validated_against_impl=rep["paths"] + tr["summary"]["traces"] + len(chains),
                 exhaustive=True, replayed_paths=rep["paths"], replayed_steps=rep["steps"], replay_edges=rep["edges"],
                 replay_forks=rep["forks"], replay_mismatches=len(rep["mismatches"]),
                 flood_config_has_limit=rep["maxhops_field"], wiring_cases=len(recs),
                 chains=[{k: c["summary"][k] for k in ("chain", "maxhops", "holders", "farthest", "joiner_learned", "events")} for c in chains],
                 chain_traces_accepted=[c["v"]["accepted"] for c in chains],
                 trace_events=tr["summary"]["events"], trace_highwater=tr["v"]["hw"], trace_accepted=tr["v"]["accepted"],
                 deviations_caught=caught, samples=rep["samples"] + [{"wiring": recs[:4]}])
