# C15 - Route announcements do not travel beyond the configured hop limit
#
# Interpretation: an agent whose distance from the origin along the announcement's path (= length of the received
# path) exceeds its routing.max_hops neither stores nor forwards the announcement.  An agent exactly max_hops away
# stores it and may forward it (the statement forbids storing/forwarding only "more than" max_hops away); the next
# agent drops it.  "Set in the routing configuration": the limit an Agent built from a configuration enforces is
# config.Routing.MaxHops (checked on real agent.New objects for limits 1, 2, 3, 16, 100, 255).
import vf, _flood as F

DEVS = ["DevNoHopCheck"]
WFILES = ["common/common_test.go.tmpl", "agent/flood_wiring_test.go"]


def cfgs(ctx):
    l3 = F.L(("a", "b"), ("b", "c"))
    t3 = F.L(("a", "b"), ("b", "c"), ("a", "c"))
    out = [F.base("c15-limit3", F.A3, t3, initups=[l3, t3], exits=[["a"]], announcers=["a", "b"], hopsset=[1], dup=1),
           F.base("c15-within3", F.A3, l3, initups=[l3], exits=[["a"]], announcers=["a", "c"], hopsset=[2]),
           F.base("c15-join3", F.A3, l3, initups=[l3[:1]], exits=[["a"]], announcers=["a"], hopsset=[1], conn=1)]
    if not ctx.quick():
        l4 = F.L(("a", "b"), ("b", "c"), ("c", "d"))
        r4 = F.L(("a", "b"), ("b", "c"), ("c", "d"), ("a", "d"))
        out.append(F.base("c15-limit4", F.A4, r4, initups=[l4, r4], exits=[["a"]], announcers=["a", "b"], hopsset=[1, 2, 3], exp=1))
    return out


def wiring(ctx):
    g = ctx.gotest("agent", WFILES, "^TestZZVFloodHopLimitWiring$", timeout=900)
    recs = g.of("wiring")
    if not g.of("summary") or not recs:
        raise vf.Infra("wiring harness produced no records:\n" + g.out[-2000:])
    bad = []
    for r in recs:
        if "error" in r:
            raise vf.Infra("valid max_hops %s rejected by the configuration: %s" % (r["maxhops"], r["error"]))
        want = r["pathlen"] <= r["maxhops"]
        if r["stored"] != want:
            bad.append(r)
    if bad:
        beyond = [r for r in bad if r["stored"]]
        ctx.finding("Flood:DevNoHopCheck:agent-config-wiring",
                    "an Agent built from a configuration with routing.max_hops = k does not apply k to route flooding: %s" % (
                        "announcements %d hops long stored with max_hops %d (%d of %d cases beyond the limit stored)" % (
                            beyond[0]["pathlen"], beyond[0]["maxhops"], len(beyond), len([r for r in recs if r["pathlen"] > r["maxhops"]]))
                        if beyond else "announcements within the limit rejected: %s" % bad[:3]), bad[:10])
    return recs


def run(ctx):
    runs = F.model(ctx, cfgs(ctx))
    caught = F.sensitivity(ctx, DEVS)
    rep = F.replay(ctx, runs)
    recs = wiring(ctx)
    ntr, nops = (25, 50) if ctx.quick() else (1200, 100)
    tr = F.traces(ctx, "TestZZVFloodTrace", {"ZZV_TRACES": ntr, "ZZV_OPS": nops, "ZZV_HOPS": "small"}, "c15trace")
    F.report(ctx, "C15", rep, [tr])
    st, trn = F.coverage(runs)
    ctx.evidence("model_checking",
                 assumptions=["bounded model: limits 1..%d on lines, triangles and rings longer than the limit; random schedules with "
                              "per-agent limits 1..3 on 5-6 agents" % (2 if ctx.quick() else 3),
                              "config -> flooder wiring observed on real Agent objects for limits 1, 2, 3, 16, 100, 255 "
                              "(paths longer than 255 agents cannot be encoded)"],
                 states=st, transitions=trn, traces_validated_against_impl=rep["paths"] + tr["summary"]["traces"],
                 exhaustive=True, replayed_paths=rep["paths"], replayed_steps=rep["steps"], replay_edges=rep["edges"],
                 replay_forks=rep["forks"], replay_mismatches=len(rep["mismatches"]),
                 flood_config_has_limit=rep["maxhops_field"], wiring_cases=len(recs),
                 trace_events=tr["summary"]["events"], trace_highwater=tr["v"]["hw"], trace_accepted=tr["v"]["accepted"],
                 deviations_caught=caught, samples=rep["samples"] + [{"wiring": recs[:4]}])
