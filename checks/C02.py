# C02 - No nonce is ever reused under a session key, in either direction
import vf, _session as S


def run(ctx):
    maxc, maxmsgs, ideal, caught, devrel = S.model(ctx, None)
    paths, nnodes, nedges, steps, mism = S.replay(ctx, maxc, ideal, devrel)
    # the sequential part: every Encrypt step must seal with <own direction prefix, spec counter>
    S.report(ctx, mism, devrel, lambda dev, mm: mm.get("a", {}).get("act") == "Encrypt")
    g, m, rounds = (8, 200, 10) if ctx.quick() else (64, 50, 30)
    summ, res, hw, ln, events = S.traces(ctx, "TestZZVSessionConc", {"ZZV_G": g, "ZZV_M": m, "ZZV_ROUNDS": rounds},
                                         "c02conc", cfg="TraceSessionSeal.cfg")
    if summ.get("data_race"):
        ctx.finding("Session:data-race:SessionKey",
                    "the race detector reports unsynchronised access inside SessionKey while sealing concurrently "
                    "(the send counter is not read and incremented atomically)", {"race": summ.get("race_excerpt")})
    if summ["duplicates"]:
        ctx.finding("Session:nonce-reuse:concurrent-encrypt",
                    "%d duplicate nonces among %d concurrent Encrypt calls" % (summ["duplicates"], summ["sealed"]), summ)
    if res.violated and res.violated != "postcondition":
        ctx.finding("Session:trace-invariant:%s" % res.violated,
                    "nonces sealed by the real SessionKey violate invariant %s" % res.violated, {"tlc": res.out[-2000:]})
    elif hw != ln + 1:
        ev = events[hw - 1] if 0 < hw <= len(events) else None
        ctx.finding("Session:seal-trace-rejected",
                    "nonces of concurrent senders are not <direction, consecutive counter>: event #%d %s" % (hw, ev),
                    {"event_index": hw, "event": ev, "context": events[max(0, hw - 6):hw + 2]})
    ctx.evidence("model_checking",
                 assumptions=["uniqueness is claimed for < 2^64 encrypts per endpoint",
                              "concurrent part is schedule sampling by the Go scheduler under -race, validated "
                              "against the spec (counters consecutive per endpoint, prefix = direction)"],
                 states=ideal.distinct, transitions=nedges,
                 traces_validated_against_impl=len(paths) * 2 + summ["rounds"],
                 exhaustive=True, replayed_steps=steps, sealed_concurrently=summ["sealed"],
                 goroutines=summ["goroutines"], duplicates=summ["duplicates"], trace_highwater=hw,
                 samples=[{"seal_events": events[1:5]},
                          {"replay_path": [s["a"] for s in paths[0]["steps"]][:10]}])
