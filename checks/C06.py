# C06 - Route announcements arrive intact for any local route set
#
# Interpretation: "decode exactly that set" is observed as the set of routes the neighbour LEARNS from the
# origin's announcement (all frames of one AnnounceLocalRoutes call delivered): it must equal the origin's set of
# CIDR, domain and forward routes plus its presence route.  The same for an agent two hops away (forwarded groups)
# and for a peer that connects later (replayed groups).  A set that does not fit one frame (more than 255 routes,
# or more bytes than a frame payload) may be sent as several announcements; what is excluded is a frame the
# receiver cannot decode, decodes as a different set, or that is silently not sent.
#
# Model: Flood.tla with the one-byte count field as a small modulus (CntMod = 3, 4): invariants CountFits,
# DecodedIntact, Converged for announce, forward and replay; DevCount8Wrap must be caught.  Binding: executions of
# the real flooder network with N in {0,1,254,255,256,257,300,(511,512,1000)} mixed routes are validated by TLC
# against the same spec with the real modulus 256 (TraceFlood.tla), and the learned sets are compared directly.
import vf, _flood as F

DEVS = ["DevCount8Wrap"]
SCALE_INVS = "PathsSimple ChainsSimple MetricIsHops HopLimit CountFits DecodedIntact Converged Refreshed ProcessedOnce ForwardedOnce"


def cfgs(ctx):
    l2, l3 = F.L(("a", "b")), F.L(("a", "b"), ("b", "c"))
    out = [F.base("c06-mod3", F.A3, l3, initups=[l2], exits=[["a"]], routeids=["r1", "r2", "r3"], cntmod=3,
                  announcers=["a"], maxann=2, conn=1),
           F.base("c06-mod3b", F.A3, l3, initups=[l2], exits=[["a", "b"]], routeids=["r1", "r2", "r3"], cntmod=3,
                  announcers=["a"], maxann=1, conn=1),
           F.base("c06-mod4", F.A3, l3, initups=[l3], exits=[["a"]], routeids=["r1", "r2", "r3"], cntmod=4, announcers=["a", "b"], dup=1)]
    if not ctx.quick():
        out.append(F.base("c06-mod2", F.A3, l3, initups=[l2], exits=[["a"]], routeids=["r1", "r2"], cntmod=2, announcers=["a"],
                          maxann=1, conn=1, dup=1))
    return out


def run(ctx):
    runs = F.model(ctx, cfgs(ctx), emit=False)
    caught = F.sensitivity(ctx, DEVS)
    sizes = [0, 1, 254, 255, 256, 257, 300] if ctx.quick() else [0, 1, 2, 127, 254, 255, 256, 257, 300, 511, 512, 765, 1000]
    # mix "short": only short routes, the route count (255) is the binding limit; mix "long": every domain pattern has
    # ~250 characters, the frame payload (16 KiB) is the binding limit
    # mix "fwd": only port-forward endpoints with ~50-character routing keys and ~65-character targets
    long_sizes = [120, 300] if ctx.quick() else [60, 120, 254, 300, 512, 1000]
    fwd_sizes = [70, 240] if ctx.quick() else [70, 130, 240, 255, 400]
    tr = F.traces(ctx, "TestZZVFloodScale", {"ZZV_SIZES": ",".join(map(str, sizes)), "ZZV_SIZES_LONG": ",".join(map(str, long_sizes)),
                                             "ZZV_SIZES_FWD": ",".join(map(str, fwd_sizes))},
                  "c06scale", invs=SCALE_INVS)
    F.report(ctx, "C06", None, [tr])
    scale = [r for r in tr["records"] if r.get("k") == "scale"]
    cases = [r for r in tr["records"] if r.get("k") == "scalecase"]
    ncases = len(sizes) + len(long_sizes) + len(fwd_sizes)
    if len(scale) != 5 * ncases:
        raise vf.Infra("scale harness reported %d of %d cases" % (len(scale), 5 * ncases))
    st, trn = F.coverage(runs)
    ctx.evidence("model_checking",
                 assumptions=["model: count field modulo 3 / 4 (2 in thorough) with up to 3 exit routes + presence; the real modulus 256 is "
                              "exercised by the recorded executions with N = %s short routes (count-bound) and N = %s routes with ~250-character "
                              "domain patterns and long forward keys/targets (frame-size-bound), N = %s forward-only routes with long keys and "
                              "targets" % (sizes, long_sizes, fwd_sizes),
                              "route sets are mixed CIDR / exact and wildcard domain (some of 250 characters) / forward routes"],
                 states=st, transitions=trn, traces_validated_against_impl=ncases, exhaustive=True,
                 scale_cases=len(scale), scale_cases_equal=len([r for r in scale if r["missing"] == 0 and r["extra"] == 0]),
                 announce_frames={"%s/%s" % (c["n"], c["mix"]): c["announce_frames"] for c in cases},
                 trace_events=tr["summary"]["events"], trace_highwater=tr["v"]["hw"], trace_accepted=tr["v"]["accepted"],
                 deviations_caught=caught,
                 samples=[{"n": r["n"], "mix": r["mix"], "stage": r["stage"], "node": r["node"], "announced": r["announced"], "learned": r["learned"]}
                          for r in scale[:12]])
