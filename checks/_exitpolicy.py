# ExitPolicy.tla <-> Agent.ManageRoute / exit.Handler (C19)  and  forward.Handler key map (C20)
import json, os
import vf

C19_INVS = "TypeOK OnlyPermitted NothingConfigured AllowMatchesRoutes PresentUsable"
C19_DEVS = ["DevDuplicateOnReAdd", "DevRemoveKeepsAllow", "DevWildcardNoDot"]
C20_DEVS = ["DevForwardPrefixMatch", "DevForwardCaseFold"]
# what a deviation looks like on the real code (cause class derived from the REAL state at the offending request)
DEV_CAUSE = {"DevDuplicateOnReAdd": "stale-allow-entry", "DevRemoveKeepsAllow": "stale-allow-entry",
             "DevWildcardNoDot": "domain-pattern"}
HFILES = ["common/common_test.go.tmpl", "agent/cmesh_test.go", "agent/exitpolicy_test.go"]
EXTRA = {"exit": ["exit/exitpolicy_export.go"]}


def q(xs):
    return "{%s}" % ",".join('"%s"' % x for x in xs)


def cfg(dev=(), emit=True, hist=False, maxops=3, metrics=(1, 2), cfgs=("c0", "c1", "c2", "c3"), maxallow=6,
        probeonly=False, invs=C19_INVS, props="DialOnlyPermitted", init="Init", nxt="Next", view=True):
    t = ("CONSTANTS Dev = %s Emit = %s Hist = %s MaxOps = %d Metrics = {%s} CfgNames = %s MaxAllow = %d ProbeOnly = %s\n"
         "INIT %s\nNEXT %s\n" % (q(dev), "TRUE" if emit else "FALSE", "TRUE" if hist else "FALSE", maxops,
                                 ",".join(str(m) for m in metrics), q(cfgs), maxallow, "TRUE" if probeonly else "FALSE",
                                 init, nxt))
    if view:
        t += "VIEW view\nACTION_CONSTRAINT EmitEdge\nCONSTRAINT Bound\n"
    if invs:
        t += "INVARIANTS %s\n" % invs
    if props:
        t += "PROPERTIES %s\n" % props
    return t


def meta_of(res):
    for tag, obj in res.prints:
        if tag == "META":
            return obj
    raise vf.Infra("ExitPolicy: TLC did not print the META record")


def is_init(meta):
    def pred(s):
        c = meta["configs"][s["cfg"]]
        return (all(v == 0 for v in s["dyn"].values()) and s["allow"] == c["nets"] and s["handler"] == c["enabled"]
                and s["hist"] == [])
    return pred


def cex_path(res, tag):
    """counterexample of a deviation run -> replayable path (actions = `last` of every state after the first)"""
    tr = res.trace
    if not tr or "counterexample" not in tr:
        raise vf.Infra("no counterexample trace dumped for %s" % tag)
    states = [s for _, s in tr["counterexample"]["state"]]

    def proj(s):
        return {k: s[k] for k in ("cfg", "dyn", "allow", "handler", "hist")}
    return {"init": proj(states[0]), "steps": [{"a": s["last"], "t": proj(s)} for s in states[1:]], "tag": tag}


def c19_model(ctx):
    quick = ctx.quick()
    tags = ("EDGE", "META")
    ideal = ctx.tlc("ExitPolicy", "MC.cfg", files={"MC.cfg": cfg()}, tags=tags, name="ideal")
    if ideal.violated:
        raise vf.Infra("ideal ExitPolicy spec violates %s (specification error)" % ideal.violated)
    meta = meta_of(ideal)
    # every history of route operations up to MaxOps, with the probe requests at every node
    hops, hcfgs = (3, ("c0", "c2")) if quick else (5, ("c0", "c2"))
    histr = ctx.tlc("ExitPolicy", "MChist.cfg", tags=tags, name="hist", files={"MChist.cfg": cfg(
        hist=True, maxops=hops, metrics=(1,), cfgs=hcfgs, probeonly=True)})
    if histr.violated:
        raise vf.Infra("ideal ExitPolicy spec (history mode) violates %s" % histr.violated)
    extra = []
    if not quick:
        h2 = ctx.tlc("ExitPolicy", "MChist2.cfg", tags=tags, name="hist2", files={"MChist2.cfg": cfg(
            hist=True, maxops=4, metrics=(1,), cfgs=("c1", "c3"), probeonly=True)})
        if h2.violated:
            raise vf.Infra("ideal ExitPolicy spec (history mode 2) violates %s" % h2.violated)
        extra.append(h2)
    caught, cex = {}, []
    for d in C19_DEVS:
        r = ctx.tlc("ExitPolicy", "MCdev.cfg", workers=1, expect_violation=True, name="dev-" + d, files={"MCdev.cfg": cfg(
            dev=[d], emit=False, invs="TypeOK", props="DialOnlyPermitted")})
        if not r.violated:
            raise vf.Infra("deviation %s not detected (vacuous model)" % d)
        caught[d] = r.violated
        cex.append(cex_path(r, "cex:" + d))
    return meta, ideal, histr, extra, caught, cex


def c19_replay(ctx, meta, paths, corrupt=None):
    inp = os.path.join(ctx.work, "exitpolicy_paths_%d.json" % len(paths))
    vf.write_json(inp, {"meta": meta, "paths": paths})
    env = {"ZZV_IN": inp}
    if corrupt:
        env["ZZV_CORRUPT"] = corrupt
    r = ctx.gotest("agent", HFILES, "^TestZZVExitPolicyReplay$", env=env, extra_pkgs=EXTRA, timeout=3000)
    summ = r.of("summary")
    if not summ:
        raise vf.Infra("exit policy replay produced no summary:\n" + r.out[-3000:])
    return summ[0], r.of("mismatch")


def cause_of(meta, mm):
    """Why did the real exit dial?  Derived from the REAL projected state at the request."""
    a, real = mm["a"], mm["real_t"]
    cfgnets = set(meta["configs"][mm["cfg"]]["nets"])
    present = cfgnets | {n for n, m in real["dyn"].items() if m}
    ip = a.get("ip")
    stale = [n for n in real["allow"] if n not in present and ip in meta["covers"].get(n, [])]
    if stale:
        return "stale-allow-entry"
    d = meta["dests"].get(a.get("dest"), {})
    if d.get("kind") == "dom" and not d.get("lit"):
        return "domain-pattern"
    return "unexplained"
