# ExitPolicy.tla <-> Agent.ManageRoute / exit.Handler (C19)  and  forward.Handler key map (C20)
import json, os
import vf

C19_INVS = "TypeOK OnlyPermitted NothingConfigured AllowMatchesRoutes PresentUsable"
C19_DEVS = ["DevDuplicateOnReAdd", "DevRemoveKeepsAllow", "DevWildcardNoDot", "DevDefaultRouteAnyFamily"]
C20_DEVS = ["DevForwardPrefixMatch", "DevForwardCaseFold"]
C20_OPEN_DEVS = ["DevPendingBySidOnly", "DevResolveCacheByHost"]
ALLNETS = ("n1", "n2", "n3", "n4", "n6")
ALLCFGS = ("c0", "c1", "c2", "c3", "c4", "c5", "c6", "c7")
# what a deviation looks like on the real code (cause class derived from the REAL state at the offending request)
DEV_CAUSE = {"DevDuplicateOnReAdd": "stale-allow-entry", "DevRemoveKeepsAllow": "stale-allow-entry",
             "DevWildcardNoDot": "domain-pattern", "DevDefaultRouteAnyFamily": "default-route-other-family"}
HFILES = ["common/common_test.go.tmpl", "agent/cmesh_test.go", "agent/exitpolicy_test.go"]
EXTRA = {"exit": ["exit/exitpolicy_export.go"]}


def q(xs):
    return "{%s}" % ",".join('"%s"' % x for x in xs)


def cfg(dev=(), emit=True, hist=False, maxops=3, metrics=(1, 2), cfgs=("c0", "c1", "c2", "c3"), maxallow=6,
        probeonly=False, invs=C19_INVS, props="DialOnlyPermitted", init="Init", nxt="Next", view=True,
        nets=("n1", "n2", "n3")):
    t = ("CONSTANTS Dev = %s Emit = %s Hist = %s MaxOps = %d Metrics = {%s} CfgNames = %s MaxAllow = %d ProbeOnly = %s "
         "NetSet = %s\nINIT %s\nNEXT %s\n" % (q(dev), "TRUE" if emit else "FALSE", "TRUE" if hist else "FALSE", maxops,
                                             ",".join(str(m) for m in metrics), q(cfgs), maxallow,
                                             "TRUE" if probeonly else "FALSE", q(nets), init, nxt))
    if view:
        t += "VIEW view\nACTION_CONSTRAINT EmitEdge\nCONSTRAINT Bound\n"
    if invs:
        t += "INVARIANTS %s\n" % invs
    if props:
        t += "PROPERTIES %s\n" % props
    return t


def meta_of(res):
    for tag, obj in res.prints:
        if tag == "META":
            return obj
    raise vf.Infra("ExitPolicy: TLC did not print the META record")


def is_init(meta):
    def pred(s):
        c = meta["configs"][s["cfg"]]
        return (all(v == 0 for v in s["dyn"].values()) and s["allow"] == c["nets"] and s["handler"] == c["enabled"]
                and s["hist"] == [])
    return pred


def cex_path(res, tag):
    """counterexample of a deviation run -> replayable path (actions = `last` of every state after the first)"""
    tr = res.trace
    if not tr or "counterexample" not in tr:
        raise vf.Infra("no counterexample trace dumped for %s" % tag)
    states = [s for _, s in tr["counterexample"]["state"]]

    def proj(s):
        return {k: s[k] for k in ("cfg", "dyn", "allow", "handler", "hist")}
    return {"init": proj(states[0]), "steps": [{"a": s["last"], "t": proj(s)} for s in states[1:]], "tag": tag}


def par_tlc(ctx, jobs):
    """Run several independent TLC jobs concurrently (TLC start-up dominates these small models).
    jobs: {name: kwargs of ctx.tlc (module, cfg, ...)}.  Starts are staggered because Ctx numbers its scratch
    directories with an unsynchronised counter."""
    import threading, time
    out, errs = {}, {}

    def work(name, kw):
        try:
            out[name] = ctx.tlc(**kw)
        except BaseException as e:          # re-raised in the caller
            errs[name] = e
    th = []
    for name, kw in jobs.items():
        t = threading.Thread(target=work, args=(name, kw))
        t.start()
        th.append(t)
        time.sleep(0.15)
    for t in th:
        t.join()
    for name in jobs:
        if name in errs:
            raise errs[name]
    return out


def c19_model(ctx):
    quick = ctx.quick()
    tags = ("EDGE", "META")
    hops = 3 if quick else 5
    # graph A: the three loopback networks with metric updates; graph B: the default routes of both address families
    # (configured alone, next to a narrow network of the other family, and added / removed dynamically) -- quick: four
    # networks and the five configurations that matter for them, thorough: all five networks and all configurations
    bnets, bcfgs = (("n2", "n3", "n4", "n6"), ("c0", "c4", "c5", "c6", "c7")) if quick else (ALLNETS, ALLCFGS)
    jobs = {"ideal": dict(module="ExitPolicy", cfg="MC.cfg", files={"MC.cfg": cfg()}, tags=tags, name="ideal", workers=2),
            "ideal2": dict(module="ExitPolicy", cfg="MCb.cfg", tags=tags, name="ideal-defaultroutes", workers=2, files={
                "MCb.cfg": cfg(metrics=(1,), cfgs=bcfgs, nets=bnets)})}
    jobs.update({
            # every history of route operations up to MaxOps, with the probe requests at every node
            "hist": dict(module="ExitPolicy", cfg="MChist.cfg", tags=tags, name="hist", workers=2, files={"MChist.cfg": cfg(
                hist=True, maxops=hops, metrics=(1,), cfgs=("c0", "c2"), probeonly=True)})})
    if not quick:
        jobs["hist2"] = dict(module="ExitPolicy", cfg="MChist2.cfg", tags=tags, name="hist2", workers=2, files={
            "MChist2.cfg": cfg(hist=True, maxops=4, metrics=(1,), cfgs=("c1", "c3"), probeonly=True)})
        jobs["hist3"] = dict(module="ExitPolicy", cfg="MChist3.cfg", tags=tags, name="hist3", workers=2, files={
            "MChist3.cfg": cfg(hist=True, maxops=4, metrics=(1,), cfgs=("c0", "c6"), probeonly=True, nets=("n3", "n4", "n6"))})
    for d in C19_DEVS:
        jobs["dev-" + d] = dict(module="ExitPolicy", cfg="MCdev-%s.cfg" % d, workers=1, expect_violation=True, name="dev-" + d,
                                files={"MCdev-%s.cfg" % d: cfg(dev=[d], emit=False, invs="TypeOK", props="DialOnlyPermitted",
                                                              metrics=(1,), cfgs=ALLCFGS, nets=ALLNETS)})
    res = par_tlc(ctx, jobs)
    ideal, histr = res["ideal"], res["hist"]
    for n in ("ideal", "ideal2", "hist", "hist2", "hist3"):
        if n in res and res[n].violated:
            raise vf.Infra("ideal ExitPolicy spec (%s) violates %s (specification error)" % (n, res[n].violated))
    meta = meta_of(ideal)
    extra = [res[n] for n in ("hist2", "hist3") if n in res]
    ideal.second = res.get("ideal2")
    caught, cex = {}, []
    for d in C19_DEVS:
        r = res["dev-" + d]
        if not r.violated:
            raise vf.Infra("deviation %s not detected (vacuous model)" % d)
        caught[d] = r.violated
        cex.append(cex_path(r, "cex:" + d))
    return meta, ideal, histr, extra, caught, cex


def tree_paths(edges, init_pred, tag):
    """History mode: the transition graph is a forest (the operation history is part of the state) with the open
    requests as self-loops.  One path per leaf (root to leaf); the self-loops of a node are put on the first path
    that visits it.  Linear in the number of edges (vf.path_cover is quadratic on large trees)."""
    nodes, kids, loops = {}, {}, {}
    seen = set()
    for e in edges:
        ks, kt = vf.canon(e["s"]), vf.canon(e["t"])
        ek = (ks, vf.canon(e["a"]), kt)
        if ek in seen:
            continue
        seen.add(ek)
        nodes.setdefault(ks, e["s"])
        nodes.setdefault(kt, e["t"])
        if ks == kt:
            loops.setdefault(ks, []).append(e["a"])
        else:
            kids.setdefault(ks, []).append((e["a"], kt))
    paths, visited = [], set()
    for root in [k for k, st in nodes.items() if init_pred(st)]:
        stack = [(root, [])]          # (node, steps from the root; open requests only of nodes first visited on this way)
        while stack:
            k, steps = stack.pop()
            if k not in visited:
                visited.add(k)
                steps = steps + [{"a": a, "t": nodes[k]} for a in loops.get(k, [])]
            ch = kids.get(k, [])
            if not ch:
                paths.append({"init": nodes[root], "steps": steps, "tag": tag})
                continue
            # one child inherits the open requests executed so far; the others replay only the route operations
            bare = [st for st in steps if st["a"].get("act") != "Open"]
            for i, (a, kt) in enumerate(ch):
                stack.append((kt, (steps if i == len(ch) - 1 else bare) + [{"a": a, "t": nodes[kt]}]))
    if len(visited) != len(nodes):
        raise vf.Infra("tree_paths: %d of %d states not reachable from the initial states" % (len(nodes) - len(visited), len(nodes)))
    return paths, len(nodes), len(seen)


def c19_replay(ctx, meta, paths, corrupt=None):
    inp = os.path.join(ctx.work, "exitpolicy_paths_%d.json" % len(paths))
    vf.write_json(inp, {"meta": meta, "paths": paths})
    env = {"ZZV_IN": inp}
    if corrupt:
        env["ZZV_CORRUPT"] = corrupt
    r = ctx.gotest("agent", HFILES, "^TestZZVExitPolicyReplay$", env=env, extra_pkgs=EXTRA, timeout=3000)
    summ = r.of("summary")
    if not summ:
        raise vf.Infra("exit policy replay produced no summary:\n" + r.out[-3000:])
    return summ[0], r.of("mismatch")


def cause_of(meta, mm):
    """Why did the real exit dial?  Derived from the REAL projected state at the request."""
    a, real = mm["a"], mm["real_t"]
    cfgnets = set(meta["configs"][mm["cfg"]]["nets"])
    present = cfgnets | {n for n, m in real["dyn"].items() if m}
    ip = a.get("ip")
    stale = [n for n in real["allow"] if n not in present and ip in meta["covers"].get(n, [])]
    if stale:
        return "stale-allow-entry"
    if any(n in ("n4", "n6") for n in real["allow"]) and not any(ip in meta["covers"].get(n, []) for n in real["allow"]):
        return "default-route-other-family"
    d = meta["dests"].get(a.get("dest"), {})
    if d.get("kind") == "dom" and not d.get("lit"):
        return "domain-pattern"
    return "unexplained"


# ------------------------------------------------------------------------------------------------ C20
FK_HANDLER = ["common/common_test.go.tmpl", "forward/forwardkeys_test.go"]
FK_MESH = ["common/common_test.go.tmpl", "agent/cmesh_test.go", "agent/forwardkeys_test.go"]


def fwd_cfg(dev=()):
    return cfg(dev=dev, emit=False, cfgs=("c0",), invs="FwdOK", props=None, init="FwdInit" if dev else "FwdSeqInit",
               nxt="FwdNext", view=False)


def c20_model(ctx):
    jobs = {"vecs": dict(module="ExitPolicy", cfg="Fwd.cfg", files={"Fwd.cfg": fwd_cfg()}, workers=1,
                         tags=("VEC", "FCFG", "FSUM", "FEND", "FSEQ", "FQSUM"), name="fwd")}
    for d in C20_DEVS:
        jobs[d] = dict(module="ExitPolicy", cfg="Fwd-%s.cfg" % d, files={"Fwd-%s.cfg" % d: fwd_cfg([d])}, workers=1,
                       tags=("FSUM",), expect_violation=True, name="fwd-" + d, dump_trace=False)
    # part 2b: a forward open as two steps with per-(peer, stream id) identity; request sequences for one live handler
    jobs["open"] = dict(module="ExitPolicy", cfg="FwdOpen.cfg", workers=2, name="fwd-open", files={"FwdOpen.cfg": cfg(
        emit=False, cfgs=("c0",), invs="FwdConnOK", props=None, nxt="FwdOpenNext", view=False)})
    for d in C20_OPEN_DEVS:
        jobs[d] = dict(module="ExitPolicy", cfg="FwdOpen-%s.cfg" % d, workers=1, name="fwd-open-" + d, expect_violation=True,
                       dump_trace=False, files={"FwdOpen-%s.cfg" % d: cfg(dev=[d], emit=False, cfgs=("c0",), invs="FwdConnOK",
                                                                        props=None, nxt="FwdOpenNext", view=False)})
    res = par_tlc(ctx, jobs)
    r = res["vecs"]
    if r.violated:
        raise vf.Infra("forward key model: oracle and transcription disagree / vacuous universe (%s)" % r.violated)
    vecs = [o for t, o in r.prints if t == "VEC"]
    cfgs = {o["cfg"]: o["keys"] for t, o in r.prints if t == "FCFG"}
    fsum = [o for t, o in r.prints if t == "FSUM"]
    if not vecs or not cfgs or not fsum or fsum[0]["vecs"] != len(vecs):
        raise vf.Infra("forward key model: incomplete VEC output (%d vectors)" % len(vecs))
    caught = {}
    for d in C20_DEVS + C20_OPEN_DEVS:
        if not res[d].violated:
            raise vf.Infra("deviation %s not detected (vacuous model)" % d)
        caught[d] = res[d].violated
    if res["open"].violated:
        raise vf.Infra("ideal forward-open model violates %s (specification error)" % res["open"].violated)
    fend = [o for t, o in r.prints if t == "FEND"]
    seqs = [o for t, o in r.prints if t == "FSEQ"]
    qsum = [o for t, o in r.prints if t == "FQSUM"]
    if not fend or not qsum or qsum[0]["seqs"] != len(seqs):
        raise vf.Infra("forward-open model: incomplete FSEQ output (%d sequences)" % len(seqs))
    openm = {"endpoints": fend[0], "seqs": seqs, "states": res["open"].distinct, "transitions": res["open"].generated}
    return vecs, cfgs, caught, openm


def fk_near(cfgkeys, v):
    """non-trivial vector: a hit, or a near miss of a configured key (prefix / suffix / extension / case variant)"""
    k = v["key"]
    if v["oracle"]["found"]:
        return True
    if not k:
        return False
    low = [x.lower() for x in k]
    for c in cfgkeys:
        cl = [x.lower() for x in c]
        if low == cl or c[:len(k)] == k or k[:len(c)] == c or c[-len(k):] == k or k[-len(c):] == c:
            return True
    return False
