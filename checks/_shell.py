# Shell.tla <-> internal/shell (executor.go, handler.go, pty_unix.go)   (C25)
import os
import vf

HFILES = ["common/common_test.go.tmpl", "shell/shell_test.go"]
META = list(";&|$`(){}[]<>\\!*?~")


def ch(c):
    return {"\\": '"\\\\"', '"': '"\\""', "\n": '"\\n"', "\t": '"\\t"'}.get(c, '"%s"' % c)


def tstr(s):
    return "<<" + ", ".join(ch(c) for c in s) + ">>"


def tset(items):
    return "{" + ", ".join(items) + "}"


def tseq(items):
    return "<<" + ", ".join(items) + ">>"


WHITELISTS = [[], ["*"], ["ls"], ["ls", "id"], ["ls", "*"], ["ls", "b/ls", "/b/ls"]]
CMDS_Q = ["ls", "id", "cat", "lsx", "xls", "l", "LS", "./ls", "b/ls", "/b/ls", "bin/ls", "ls\\x", " ls", "*"]
CMDS_T = CMDS_Q + ["Ls", "ls ", "", "ls/", "/bin/ls", "b\\ls", "lsls", "i"]
ARGS_Q = ([[], ["-l"], ["a", "b"], ["a/b"], ["/etc"], ["/"], ["a", "/etc"], ["a", ";"], ["a;b"], ["x$(id)"], ["'"], ["a b"]]
          + [[c] for c in META])
# metacharacters / absolute paths at every position of an argument: before and after '=', ':' and ',' separators,
# in --opt=value forms (key part and value part), in arguments made of several segments
ARGS_Q += [["$(id)=1"], ["a;b=c"], ["*=1"], ["/etc/passwd=x"], ["--opt=/etc"], ["--opt=a;b"], ["--o;pt=v"], ["k=v=;"],
           ["=;"], [";="], ["a:/etc"], ["a:b|c"], ["|a:b"], ["x,y;z"], ["x,/etc"], ["k=v", "/etc=x"], ["a=b,c:d"]]
ARGS_T = ARGS_Q + [["a|b"], ["`id`"], ["a", "b", "c>d"], ["\""], ["#"], ["\n"], [""], ["="], ["..", "x"], ["-x", "~"],
                   ["%"], ["^"], ["a\tb"]]
AUTH_CMDS = ["ls", "cat"]
AUTH_ARGS = [[], [";"]]


def d_files(tag, dev, cmds, args, inv, full):
    defs = {
        "cCmdSliceArgs": tset(tseq(tstr(a) for a in av) for av in (args if full else args[:2])),
        "cArgSliceWls": tset(tset(tstr(w) for w in wl) for wl in (WHITELISTS if full else [["ls"], ["*"], ["ls", "*"]])),
        "cArgSliceCmds": tset(tstr(c) for c in (cmds if full else ["ls"])),
        "cWhitelists": tset(tset(tstr(w) for w in wl) for wl in WHITELISTS),
        "cCmds": tset(tstr(c) for c in cmds),
        "cArgVecs": tset(tseq(tstr(a) for a in av) for av in args),
        "cAuthCmds": tset(tstr(c) for c in AUTH_CMDS),
        "cAuthArgVecs": tset(tseq(tstr(a) for a in av) for av in AUTH_ARGS),
    }
    mod = "---- MODULE %s ----\nEXTENDS Shell\n%s\n====\n" % (tag, "\n".join("%s == %s" % kv for kv in defs.items()))
    cfg = ("CONSTANTS\n Dev = {%s}\n Part = \"D\"\n Whitelists <- cWhitelists\n Cmds <- cCmds\n ArgVecs <- cArgVecs\n"
           " AuthCmds <- cAuthCmds\n AuthArgVecs <- cAuthArgVecs\n CmdSliceArgs <- cCmdSliceArgs\n ArgSliceWls <- cArgSliceWls\n"
           " ArgSliceCmds <- cArgSliceCmds\n Streams = {} Observers = {} Max = 0 MaxOpens = 0\n"
           "INIT DInit\nNEXT DNext\nPOSTCONDITION DevReport\n%s" % (",".join('"%s"' % d for d in dev), ("INVARIANTS %s\n" % inv) if inv else ""))
    return {tag + ".tla": mod, tag + ".cfg": cfg}


def d_run(ctx, cmds, args, dev=(), inv="OnlyAuthorised", tag="MCD", expect_violation=False, full=False):
    return ctx.tlc(tag, tag + ".cfg", files=d_files(tag, dev, cmds, args, inv, full), expect_violation=expect_violation,
                   name=tag, timeout=900)


H_CFG = ("CONSTANTS\n Dev = {%s}\n Part = \"H\"\n Whitelists = {} Cmds = {} ArgVecs = {} AuthCmds = {} AuthArgVecs = {}\n"
         " CmdSliceArgs = {} ArgSliceWls = {} ArgSliceCmds = {}\n Streams = {} Observers = {} Max = 0 MaxOpens = %d\n"
         "INIT HInit\nNEXT HNext\nINVARIANTS HOnlyMatching\n%s")


def h_run(ctx, dev=(), maxreq=3, emit=True, expect_violation=False):
    """Part H: request sequences on one executor (history-free authorisation)"""
    return ctx.tlc("Shell", "MCH.cfg", files={"MCH.cfg": H_CFG % (",".join('"%s"' % d for d in dev), maxreq,
                                                                 "ACTION_CONSTRAINT HEmitEdge\n" if emit else "")},
                   expect_violation=expect_violation, name="MCH", timeout=600)


def s_cfg(dev, streams, observers, maxs, maxopens):
    return ("CONSTANTS\n Dev = {%s}\n Part = \"S\"\n Whitelists = {} Cmds = {} ArgVecs = {} AuthCmds = {} AuthArgVecs = {}\n"
            " CmdSliceArgs = {} ArgSliceWls = {} ArgSliceCmds = {}\n"
            " Streams = {%s}\n Observers = {%s}\n Max = %d\n MaxOpens = %d\nINIT SInit\nNEXT SNext\n"
            "INVARIANTS CounterLeMax CounterExact LiveLeMax\n" % (
                ",".join('"%s"' % d for d in dev), ",".join('"%s"' % s for s in streams),
                ",".join('"%s"' % s for s in observers), maxs, maxopens))


def s_run(ctx, dev=(), streams=("s1", "s2", "s3"), observers=(), maxs=2, maxopens=3, expect_violation=False):
    return ctx.tlc("Shell", "MCS.cfg", files={"MCS.cfg": s_cfg(dev, streams, observers, maxs, maxopens)},
                   expect_violation=expect_violation, name="MCS", timeout=900)


TRACE_CFG = ("CONSTANTS\n Dev = {}\n Part = \"S\"\n Whitelists = {} Cmds = {} ArgVecs = {} AuthCmds = {} AuthArgVecs = {}\n"
            " CmdSliceArgs = {} ArgSliceWls = {} ArgSliceCmds = {}\n"
             " Streams = {%s}\n Observers = {%s}\n Max = %d\n MaxOpens = 1000000\n"
             "INIT TraceInit\nNEXT TraceNext\nCONSTRAINT HighWater\nINVARIANTS CounterLeMax CounterExact LiveLeMax\n"
             "POSTCONDITION TraceAccepted\n")


def trace(ctx, maxs, threads, rounds, streams, name, corrupt=None):
    out = os.path.join(ctx.work, name + ".ndjson")
    # no -race: the handler has an unrelated data race on ShellStream.Closed (handler.go: written under Handler.mu in
    # HandleStreamClose, read under ShellStream.mu in HandleStreamData) that would fail every run
    r = ctx.gotest("shell", HFILES, "^TestZZVShellTrace$", race=False, timeout=900,
                   env={"ZZV_OUT": out, "ZZV_MAX": maxs, "ZZV_THREADS": threads, "ZZV_ROUNDS": rounds,
                        "ZZV_STREAMS": streams})
    summ = r.of("summary")
    if not summ:
        raise vf.Infra("shell trace harness produced no summary:\n" + r.out[-3000:])
    if corrupt:
        corrupt(out)
    cfgname = "TraceShell%d.cfg" % maxs
    with open(os.path.join(vf.SPEC, "TraceShell.tla")) as f:
        pass
    # the cfg is generated (Max differs per run); validate_trace copies spec/ and we add the cfg through tlc(files=)
    import json
    evs = [json.loads(l) for l in open(out) if l.strip()]
    names = lambda k: ",".join('"%s"' % x for x in sorted(set(e[k] for e in evs if k in e)))
    v = validate(ctx, cfgname, TRACE_CFG % (names("t"), names("w"), maxs), out, name)
    return summ[0], v


def validate(ctx, cfgname, cfgtext, tracefile, name):
    """ctx.validate_trace with a generated cfg (vf.validate_trace takes a cfg file name from spec/)"""
    import json
    res = ctx.tlc("TraceShell", cfgname, files={cfgname: cfgtext}, workers=1, env={"TRACE_FILE": tracefile},
                  expect_violation=True, name=name, timeout=900, dump_trace=False)
    hw = [o for t, o in res.prints if t == "HW"]
    ln = [o for t, o in res.prints if t == "LEN"]
    events = [json.loads(l) for l in open(tracefile) if l.strip()]
    if res.violated and res.violated != "postcondition":
        return {"accepted": False, "violated": res.violated, "hw": hw[-1] if hw else None, "len": len(events),
                "event": None, "context": None, "events": events, "res": res}
    if not hw or not ln:
        raise vf.Infra("trace validation did not reach its postcondition:\n" + res.out[-3000:])
    h, n = hw[-1], ln[-1]
    ok = h == n + 1
    return {"accepted": ok, "violated": None if ok else "rejected", "hw": h, "len": n,
            "event": events[h - 1] if (not ok and 0 < h <= len(events)) else None,
            "context": events[max(0, h - 15):h] if not ok else None, "events": events, "res": res}
