# C04 - Transit agents see only ciphertext of tunnelled application data and never hold the tunnel key
#
# Interpretation: "application byte" = the data field of STREAM_DATA, UDP_DATAGRAM (Data) and ICMP_ECHO (Data) frames
# of a tunnel between HONEST ingress and exit (real agents); frame headers, addresses of datagrams, ICMP id / seq and
# bare FIN frames (no payload) are not application bytes.  "Sealed under the tunnel's key" is decided by opening the
# field with ChaCha20-Poly1305 under the key both endpoints reported at the crypto.derive hook.  "Transit never holds
# the key": nobody but the two endpoints derives a key for the tunnel, and a transit keeps no session-key bearing state.
# The udp / icmp plaintext fallback needs a dishonest endpoint (all-zero key) and is outside the statement (see C03);
# an HONEST real endpoint, however, must always offer a real ephemeral key: an OPEN / ACK between real agents that carries
# an all-zero / degenerate key is a violation (nothing can be sealed on that tunnel).
# Also driven: open wait timing out with a late ACK (no data may leave the ingress before it holds the key) and tunnel
# teardown racing with return-direction bytes the exit has read but not sealed yet (must be sealed under the tunnel key,
# in particular not under a wiped all-zero key).
import vf, _keyagreement as K


def run(ctx):
    m = K.model(ctx, "C04")
    notes = []
    # ZZV_LOCKRACE: rounds of the deterministic teardown-vs-return-data driver per exit kind and topology;
    # ZZV_RACE: tunnels of the statistical one (destination writes continuously, ingress closes / resets)
    # ZZV_DGLOCK: rounds of the deterministic UDP teardown-vs-reply driver; ZZV_DGRACE: rounds of the statistical ones
    # (UDP association, both ICMP ingress paths: the destination keeps replying while the ingress closes)
    T = K.run_traces(ctx, {"ZZV_LOCKRACE": 2 if ctx.quick() else 6, "ZZV_RACE": 40 if ctx.quick() else 1500,
                           "ZZV_RACE_SAMPLE": 6 if ctx.quick() else 30,
                           "ZZV_DGLOCK": 2 if ctx.quick() else 6, "ZZV_DGRACE": 8 if ctx.quick() else 60})
    notes.append(T["note"])

    def relevant(ev, kind, prior):
        if K.extra_derivation(ev, prior):
            return "KeyAgreement:third-key-holder:%s:%s" % (kind, ev.get("agent"))
        if ev["ev"] == "Data":
            what = "marker" if ev.get("marker") else ("unsealed" if not ev.get("sealed") else "altered")
            return "KeyAgreement:data-%s:%s:%s%s" % (what, kind, ev.get("dir"), ":after-close" if ev.get("afterclose") else "")
        if ev["ev"] == "Recv":
            return "KeyAgreement:data-altered:%s:recv" % kind
        if ev["ev"] in ("Open", "Ack") and ev.get("degenerate"):
            # an honest endpoint must always offer a real key: no key -> nothing can be sealed
            return "KeyAgreement:honest-endpoint-offers-degenerate-key:%s:%s" % (kind, ev["ev"].lower())
        return None

    validated = 0
    dropped = []
    samples = []
    data_frames = sealed = marker = fin = 0
    kinds_seen = {}
    skipped = {}
    for nt in (1, 2):
        tp = T["topos"][nt]
        n, findings, dr, segs = K.validate_all(ctx, nt, tp["events"], "c04-nt%d" % nt, relevant)
        validated += n
        dropped += dr
        for key, what, art, kind in findings:
            ctx.finding(key, what, art)
        info = tp["info"]
        data_frames += info["data_frames"]
        sealed += info["sealed"]
        marker += info["marker_hits"]
        fin += info["fin_frames"]
        for k, v in info["kinds"].items():
            kinds_seen[k] = kinds_seen.get(k, 0) + v
        for k, v in info["skipped"].items():
            skipped[k] = skipped.get(k, 0) + v
        ds = [e for s in segs for e in s if e["ev"] == "Data"]
        if ds:
            samples.append({"transits": nt, "data_events": ds[:3]})
    # second line, independent of where TLC stopped: the harness' own per-tunnel counters over EVERY frame of EVERY tunnel
    # (incl. the scenarios left out above and the close-race tunnels that were not sampled for TLC)
    race_tunnels = zero_key = 0
    for tr in T["rec"].of("tunnel"):
        race_tunnels += 1 if tr.get("race") else 0
        zero_key += tr.get("zerokey", 0)
        if tr["sealed"] != tr["data"] or tr["marker"]:
            after = tr.get("unsealed_after_close", 0) == tr["data"] - tr["sealed"] and tr["data"] > tr["sealed"]
            ctx.finding("KeyAgreement:frames-not-sealed-under-tunnel-key:%s%s%s" % (tr["kind"], ":all-zero-key" if tr.get("zerokey") else "",
                                                                                  ":after-close" if after else ""),
                        "%s tunnel (rid %s, %d transit(s)): %d of %d data-carrying frames on the links do not open under the tunnel's key"
                        "%s%s%s" % (tr["kind"], tr["rid"], tr["nt"], tr["data"] - tr["sealed"], tr["data"],
                                    " (all of them written after the tunnel's CLOSE was on the wire)" if after else "",
                                  (", %d of them open under the ALL-ZERO key" % tr["zerokey"]) if tr.get("zerokey") else "",
                                  (", %d contain the plaintext marker" % tr["marker"]) if tr["marker"] else ""), tr)
        for fld, what in (("deg_open", "OPEN"), ("deg_ack", "ACK")):
            if tr.get(fld):
                ctx.finding("KeyAgreement:honest-endpoint-offers-degenerate-key:%s:%s" % (tr["kind"], what.lower()),
                            "%s tunnel between honest agents: the %s carried an all-zero / degenerate ephemeral key (no end-to-end key "
                            "can result)" % (tr["kind"], what), tr)
    for a in T["rec"].of("anomaly"):
        if a.get("what") == "undecodable data frame":
            ctx.finding("KeyAgreement:undecodable-data-frame", "a data-carrying frame could not be decoded: %s" % a.get("frame"), a)
        if a.get("what") == "plaintext marker in a non-data frame":
            ctx.finding("KeyAgreement:marker-in-control-frame", "application plaintext visible in a non-data frame: %s" % a.get("frame"), a)
    for st in T["rec"].of("transit_state"):
        bad = {k: v for k, v in st.items() if k not in ("k", "agent", "role") and v not in (0, False)}
        if bad:
            ctx.finding("KeyAgreement:transit-holds-session-state:%s" % sorted(bad)[0],
                        "transit %s holds end-to-end session state after relaying: %s" % (st["agent"], bad), st)
    if dropped:
        notes.append("%d scenario group(s) were rejected at a key-agreement event (C03's business) and were left out of the "
                     "ciphertext validation: %s" % (len(dropped), sorted(set(d["kind"] for d in dropped))))
    if skipped:
        notes.append("skipped (counted): %s - unprivileged ICMP sockets are not available to the harness" % skipped)
    K.require_completed(ctx, T)
    ctx.evidence("model_checking",
                 assumptions=["ChaCha20-Poly1305 ciphertexts reveal nothing about the plaintext; 'sealed' = opens under a key derived "
                              "for that tunnel at the crypto.derive hook",
                              "bounded model: 2 concurrent tunnels, 1 and 2 transits, <= 1 data payload per endpoint",
                              "honest ingress and exit (real agents); payload classes empty, 1 byte, chunk boundary, all-zero, "
                              "random with a unique marker; every frame on every link inspected"] + notes,
                 states=m["states"], transitions=m["transitions"],
                 traces_validated_against_impl=validated, exhaustive=True,
                 tlc_runs=m["runs"], deviations_caught=m["caught"],
                 tunnels_by_kind=kinds_seen, data_frames_inspected=data_frames, data_frames_sealed=sealed, marker_hits=marker,
                 bare_fin_frames=fin, skipped=skipped, notes=notes,
                 close_race_tunnels=race_tunnels, frames_opening_under_all_zero_key=zero_key,
                 samples=samples + [{"transit_state": T["rec"].of("transit_state")[:2]}])
