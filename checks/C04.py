# C04 - Transit agents see only ciphertext of tunnelled application data and never hold the tunnel key
#
# Interpretation: "application byte" = the data field of STREAM_DATA, UDP_DATAGRAM (Data) and ICMP_ECHO (Data) frames
# of a tunnel between HONEST ingress and exit (real agents); frame headers, addresses of datagrams, ICMP id / seq and
# bare FIN frames (no payload) are not application bytes.  "Sealed under the tunnel's key" is decided by opening the
# field with ChaCha20-Poly1305 under the key both endpoints reported at the crypto.derive hook.  "Transit never holds
# the key": nobody but the two endpoints derives a key for the tunnel, and a transit keeps no session-key bearing state.
# The udp / icmp plaintext fallback needs a dishonest endpoint (all-zero key) and is outside the statement (see C03).
import vf, _keyagreement as K


def run(ctx):
    m = K.model(ctx, "C04")
    notes = []
    T = K.run_traces(ctx)
    notes.append(T["note"])

    def relevant(ev, kind, prior):
        if K.extra_derivation(ev, prior):
            return "KeyAgreement:third-key-holder:%s:%s" % (kind, ev.get("agent"))
        if ev["ev"] == "Data":
            what = "marker" if ev.get("marker") else ("unsealed" if not ev.get("sealed") else "altered")
            return "KeyAgreement:data-%s:%s:%s" % (what, kind, ev.get("dir"))
        if ev["ev"] == "Recv":
            return "KeyAgreement:data-altered:%s:recv" % kind
        return None

    validated = 0
    dropped = []
    samples = []
    data_frames = sealed = marker = fin = 0
    kinds_seen = {}
    skipped = {}
    for nt in (1, 2):
        tp = T["topos"][nt]
        n, findings, dr, segs = K.validate_all(ctx, nt, tp["events"], "c04-nt%d" % nt, relevant)
        validated += n
        dropped += dr
        for key, what, art, kind in findings:
            ctx.finding(key, what, art)
        info = tp["info"]
        data_frames += info["data_frames"]
        sealed += info["sealed"]
        marker += info["marker_hits"]
        fin += info["fin_frames"]
        for k, v in info["kinds"].items():
            kinds_seen[k] = kinds_seen.get(k, 0) + v
        for k, v in info["skipped"].items():
            skipped[k] = skipped.get(k, 0) + v
        # the harness' own count must agree with what TLC accepted
        if not findings and not dr and (info["sealed"] != info["data_frames"] or info["marker_hits"]):
            raise vf.Infra("harness counts (%d data frames, %d sealed, %d marker hits) contradict the accepted trace" % (
                info["data_frames"], info["sealed"], info["marker_hits"]))
        ds = [e for s in segs for e in s if e["ev"] == "Data"]
        if ds:
            samples.append({"transits": nt, "data_events": ds[:3]})
    for a in T["rec"].of("anomaly"):
        if a.get("what") == "plaintext marker in a non-data frame":
            ctx.finding("KeyAgreement:marker-in-control-frame", "application plaintext visible in a non-data frame: %s" % a.get("frame"), a)
    for st in T["rec"].of("transit_state"):
        bad = {k: v for k, v in st.items() if k not in ("k", "agent", "role") and v not in (0, False)}
        if bad:
            ctx.finding("KeyAgreement:transit-holds-session-state:%s" % sorted(bad)[0],
                        "transit %s holds end-to-end session state after relaying: %s" % (st["agent"], bad), st)
    if dropped:
        notes.append("%d scenario group(s) were rejected at a key-agreement event (C03's business) and were left out of the "
                     "ciphertext validation: %s" % (len(dropped), sorted(set(d["kind"] for d in dropped))))
    if skipped:
        notes.append("skipped (counted): %s - unprivileged ICMP sockets are not available to the harness" % skipped)
    K.require_completed(ctx, T)
    ctx.evidence("model_checking",
                 assumptions=["ChaCha20-Poly1305 ciphertexts reveal nothing about the plaintext; 'sealed' = opens under a key derived "
                              "for that tunnel at the crypto.derive hook",
                              "bounded model: 2 concurrent tunnels, 1 and 2 transits, <= 1 data payload per endpoint",
                              "honest ingress and exit (real agents); payload classes empty, 1 byte, chunk boundary, all-zero, "
                              "random with a unique marker; every frame on every link inspected"] + notes,
                 states=m["states"], transitions=m["transitions"],
                 traces_validated_against_impl=validated, exhaustive=True,
                 tlc_runs=m["runs"], deviations_caught=m["caught"],
                 tunnels_by_kind=kinds_seen, data_frames_inspected=data_frames, data_frames_sealed=sealed, marker_hits=marker,
                 bare_fin_frames=fin, skipped=skipped, notes=notes,
                 samples=samples + [{"transit_state": T["rec"].of("transit_state")[:2]}])
