# C22 - SOCKS5 UDP associations relay only for their own client
#
# Interpretation (permissive side):
#  * the owner of an association is identified by the SOURCE IP of the TCP control connection that created it; ports are
#    not asserted (a second socket on the owner's IP - sender own2 - may be relayed and may even become the reply
#    address: both are "the client's" in this reading).
#  * a stranger is a sender with a different source IP (127.0.0.2 / 127.0.0.3 against the owner's 127.0.0.1).
#  * the request declares no address (0.0.0.0:0 or a domain name), the owner's own address, or a stranger's address.
#    Whatever is declared, over plain TCP only datagrams from the control connection's source IP may be served (the
#    pinned code additionally requires them to match a declared address, so with a stranger's address declared nothing
#    is relayed: fine).
#  * SOCKS5 over WebSocket: the handler cannot see the control peer's address (wsConn.RemoteAddr() is nil).  There the
#    owner is the address DECLARED in the request: only datagrams from that IP may be served (a stranger's datagram
#    relayed while an owner address is known is a violation).  If nothing is declared there is no identity the server
#    could check; the pinned code serves every sender then and the oracle demands nothing for that case.
#  * verdicts come from the real observation only: a datagram recorded by the mesh handler whose sender is not the
#    owner, or a reply datagram arriving on a stranger's socket.  Other differences between Socks5.tla and the code
#    (e.g. when the reply address is fixed) are specification drift (exit 2), never a violation.
import os
import vf, _socks5 as S

INV = "OnlyOwnerRelayed RepliesOnlyToOwner ClientIsOwner"
DEVS = {"DevFirstSenderBecomesClient": INV, "DevDeclaredOverridesPeer": INV, "DevDeclaredDroppedWhenPeerUnknown": INV}
SITE = {"DevFirstSenderBecomesClient": "socks5.UDPAssociation.ReadLoop",
        "DevDeclaredOverridesPeer": "socks5.UDPAssociation.isFromClient",
        "DevDeclaredDroppedWhenPeerUnknown": "socks5.Handler.handleUDPAssociate"}
HF = [S.COMMON, "socks5/udpassoc_test.go"]


def udp_paths(paths, attacks=()):
    out = []
    for i, (d, p) in enumerate([("", p) for p in paths] + list(attacks)):
        out.append({"id": i, "attack": d, "tr": p["init"]["cfg"]["tr"],
                    "steps": [{"tok": s["a"]["tok"], "rep": s["a"]["rep"], "res": s["a"]["res"],
                               "t": {k: s["t"][k] for k in ("assoc", "declared", "client", "relayed", "replies")}}
                              for s in p["steps"]]})
    return out


def run(ctx):
    scope, maxdg, maxmr, cap = ("udp-quick", 3, 2, 900) if ctx.quick() else ("udp-thorough", 4, 2, 40000)
    ideal, caught, devrel = S.model(ctx, scope, S.UDP_INVS, DEVS, maxdg=maxdg, maxmr=maxmr)
    paths, total, nedges, complete = S.all_programs(ideal.edges, cap=cap, rng=ctx.rng)
    attacks = S.attack_paths(devrel, cap=cap, rng=ctx.rng)
    plist = udp_paths(paths, attacks)
    inp = os.path.join(ctx.work, "c22paths.json")
    vf.write_json(inp, {"paths": plist})
    drift, summs = [], []
    # two listeners: tcp4 loopback, and the dual-stack wildcard (peer address in IPv4-mapped form, seeded/C22-s4)
    for lmode in ("0", "1"):
        r = ctx.gotest("socks5", HF, "^TestZZVUdpReplay$", env={"ZZV_IN": inp, "ZZV_LISTEN_ANY": lmode}, timeout=1500)
        summ = (r.of("summary") or [None])[0]
        if not summ:
            raise vf.Infra("UDP replay harness produced no summary:\n" + r.out[-3000:])
        summs.append(summ)
        for mm in r.of("mismatch"):
            if mm.get("violation"):
                toks = [t["tok"] for t in mm["trace"]]
                tr = mm["trace"]
                dev = mm.get("attack") or S.explain(
                    devrel, S.is_init, toks,
                    lambda e, i: e["a"]["res"] == tr[i]["res"] and list(e["a"]["rep"]) == list(tr[i]["rep"]) and
                    all(e["t"][k] == tr[i]["real_t"][k] for k in ("assoc", "declared", "client", "relayed", "replies")))
                key = "Socks5:%s:%s" % (dev or "unexplained", SITE.get(dev) or ",".join(sorted(set(mm["bad"]))))
                req = [t for t in toks if t["t"] == "R"][0]
                ctx.finding(key, "UDP association (control connection over %s, declared address: %s): %s; arrival order %s; "
                                 "final state %s" % (
                    "WebSocket" if toks[0]["t"] == "WS" else "TCP", req.get("addr"), ", ".join(mm["bad"]),
                    [(t["tok"].get("s") or t["tok"]["t"]) + ("/" + t["tok"]["k"] if t["tok"].get("k") == "bad" else "")
                     for t in mm["trace"] if t["tok"]["t"] in ("DG", "MR", "EOF")], vf.canon(mm["trace"][-1]["real_t"])), mm)
            else:
                drift.append(mm)
    ntr = 150 if ctx.quick() else 4000
    tsum, tr, v = S.trace_check(ctx, "TestZZVUdpTrace", "socks5", HF, {"ZZV_TRACES": ntr}, "c22trace")
    for x in tr.of("violation"):
        ctx.finding("Socks5:trace:%s:%s:%s" % (x.get("transport"), x.get("declared"),
                                               ",".join(sorted(set(b.split(":")[0] for b in x["bad"])))),
                    "random arrival order (control connection over %s, declared %s): %s; state %s" % (
                        x.get("transport"), x.get("declared"), x.get("bad"), x.get("state")), x)
    if not ctx.violations and not ctx.known_hits:
        if drift:
            mm = drift[0]
            raise vf.Infra("Socks5.tla does not describe the UDP association (no C22 violation involved): %d paths differ, "
                           "first at step %s: %s" % (len(drift), mm.get("step"), vf.canon(mm.get("trace"))[:1500]))
        if v["violated"] and v["violated"] != "rejected":
            raise vf.Infra("recorded execution violates %s although the harness saw no stranger served" % v["violated"])
        if not v["accepted"]:
            raise vf.Infra("recorded random execution is not a behaviour of Socks5.tla (no C22 violation involved): "
                           "event #%s %s" % (v["hw"], v["event"]))
    ctx.evidence("model_checking",
                 assumptions=["senders: owner (127.0.0.1, %s) and strangers (127.0.0.2/127.0.0.3); at most %d datagrams "
                              "(well-formed or malformed header) and %d mesh replies per association, in any order, before "
                              "and after the control connection ends" % (
                                  "one or two ports" if not ctx.quick() else "one port", maxdg, maxmr),
                              "control connection over plain TCP and over the WebSocket listener; ASSOCIATE request without "
                              "address (0.0.0.0:0 / domain), with the owner's address or with a stranger's address",
                              "owner = source IP of the TCP control connection (WebSocket: the declared address; nothing "
                              "declared: no identity, nothing demanded); ports not asserted",
                              "loopback delivery of UDP datagrams is reliable and ordered per socket pair"],
                 states=ideal.distinct, transitions=nedges,
                 traces_validated_against_impl=summ["paths"] + tsum["traces"], exhaustive=bool(complete) or S.edges_covered(paths, ideal.edges), all_arrival_orders_replayed=bool(complete),
                 arrival_orders_in_model=total, replayed_paths=summ["paths"], replayed_steps=summ["steps"],
                 deviation_scenarios_run=summ["attack_paths"], replay_mismatches=summ["mismatches"],
                 trace_events=tsum["events"], trace_relayed=tsum["relayed"], trace_replies=tsum["replies"],
                 trace_accepted=v["accepted"], deviations_caught=caught,
                 samples=[{"arrival_order": [s["tok"] for s in plist[len(plist) // 2]["steps"]]},
                          {"trace_events": v["events"][3:8]}])
