# G05 (growth, not one of the 39 listed properties) - the FILE-TRANSFER STREAM PROTOCOL between two agents
#
# Specification: spec/FileStream.tla (+ spec/TraceFileStream.tla).  Responder = internal/agent/agent.go
# (handleFileTransferStreamOpen / ...StreamData / completeFileUpload / sendFileDownload / closeFileTransferStream /
# cleanupFileTransferStream, table Agent.fileStreams) with internal/filetransfer/stream.go; initiator = Agent.UploadFile /
# DownloadFile / DownloadFileStream.
#
# What is decided (invariants of FileStream.tla in brackets):
#  * nothing is written to / read from the file system before a metadata frame passed all checks - enabled, password,
#    allowed path, size (announced for uploads, on disk for downloads) [NoFsBeforeAuth];
#  * bytes written = bytes sent, in order; the file exists under the final name exactly when the success result (STREAM_CLOSE
#    without error record) was sent [WrittenIsSent]; a failed or aborted upload leaves nothing under the final name and what
#    was there before is still there [NoPartialFile].  What the code does: uploads are staged in os.CreateTemp("",
#    "upload-stream-*") and copied (O_TRUNC + io.Copy) to the final name when the FIN arrives - no rename;
#  * the size limit holds for the ACTUAL number of bytes [SizeLimit];
#  * every transfer the responder ends itself ends with exactly one result + STREAM_CLOSE towards the initiator [OneResult];
#    the table entry is removed exactly once and nothing (entry, staging file) is left after Close, Reset, a dead connection
#    or an error [EntryOnce]; frames before the metadata / after the end have no side effects [Frozen]; frames of another
#    peer that carry the same stream id do not touch the transfer [Isolation];
#  * initiator: the call reports success only if the responder completed the transfer [Agreement], when it returns the
#    responder holds nothing for it any more and its own stream is gone [NoOrphan], a failed download leaves the local file
#    as it was [LocalIntact].
#
# Interpretation (permissive):
#  * the size limit may be enforced as late as the FIN (the staging file is not bounded by the limit: with compressed uploads
#    the staged bytes are not the counted bytes); what counts is that no more than the limit ever appears under the final name
#    and that the transfer fails;
#  * the announced size is not compared with the actual size (the honest initiator announces the uncompressed size and
#    sends a gzip stream);
#  * a responder with file transfer disabled acknowledges the open and rejects at the metadata frame ("file transfer is
#    disabled"): modelled as built, not counted as a deviation;
#  * "Finishing" (the goroutine that copies the staged upload / serves the download) is folded into the step that starts
#    it; interleavings of further frames with that goroutine are not modelled (no hook point; see the report);
#  * error texts are classified (authentication, path, size, ...), not compared literally.
#
# Binding: (a) spec -> code: edge cover of the IDEAL relation (Dev = {}) replayed on a real responder by a puppet initiator
# that does the key exchange with the real crypto functions; every difference must be explained by a transition of the
# AS-BUILT relation (the spec labels each transition with the deviations that shaped it) -> KNOWN-FINDING per deviation,
# anything else -> VIOLATION; (b) edge cover of the AS-BUILT relation (Dev = the four responder deviations the pinned code
# has), which must be exact; (c) code -> spec: scenarios with the project's own initiator through a real transit, validated
# by TLC against TraceFileStream.tla with Dev = AS_BUILT (must be accepted) and with one deviation left out at a time
# (rejected <=> the run exhibits that deviation -> KNOWN-FINDING).
import os
import vf, _replay as R, _filestream as F


def run(ctx):
    from concurrent.futures import ThreadPoolExecutor
    cs = F.consts(ctx)
    rcfgs = F.replay_cfgs(ctx)
    hcfgs = F.honest_cfgs()
    scens = F.honest_scens(ctx)

    # ---- phase A: TLC (ideal, as built, one run per deviation)  ||  build + the honest-initiator scenarios
    def tlc_phase():
        jobs = []
        mod, files = F.mc_files(rcfgs + hcfgs, cs, dev=(), emit=True)
        jobs.append(dict(module=mod, files=files, name="ideal", workers=2))
        mod, files = F.mc_files(rcfgs, cs, dev=F.AS_BUILT_R, emit=True, invs=F.INVS_AS_BUILT, props="")
        jobs.append(dict(module=mod, files=files, name="asbuilt", workers=2))
        small = dict(cs, MaxRecv=4, DataN="{2}", FinN="{0, 2}")
        dcfgs = [F.cfg_rec("up", dest="old"), F.cfg_rec("up", dest="old", honest=True),
                 F.cfg_rec("down", fsize=3, honest=True, ldest="old"), F.cfg_rec("down", fsize=-1, honest=True, ldest="old")]
        for d in F.DEVS:
            mod, files = F.mc_files(dcfgs, small, dev=[d], emit=False)
            jobs.append(dict(module=mod, files=files, name="dev-" + d, workers=1, heap="1g"))
        res = F.tlc_many(ctx, jobs, par=6)
        ideal, built = res[0], res[1]
        if ideal.violated:
            raise vf.Infra("the ideal FileStream spec violates %s (specification error)" % ideal.violated)
        if built.violated:
            raise vf.Infra("the as-built FileStream spec violates %s (specification error)" % built.violated)
        caught = {}
        for d, r in zip(F.DEVS, res[2:]):
            if not r.violated:
                raise vf.Infra("deviation %s is not detected by the invariants (vacuous model)" % d)
            if r.violated not in F.DEV_CAUGHT_BY[d]:
                raise vf.Infra("deviation %s: TLC reported %s, expected one of %s" % (d, r.violated, sorted(F.DEV_CAUGHT_BY[d])))
            caught[d] = r.violated
        return ideal, built, caught

    def go_phase():
        binpath = R.build_test_binary(ctx, "agent", F.HFILES, name="agent_fs")
        return binpath, F.run_honest(ctx, binpath, scens)

    with ThreadPoolExecutor(max_workers=2) as ex:
        f_tlc = ex.submit(tlc_phase)
        f_go = ex.submit(go_phase)
        ideal, built, caught = f_tlc.result()
        binpath, recs = f_go.result()

    # ---- phase B: replay of both relations  ||  validation of the recorded scenarios
    p_ideal, nn_i, ne_i = F.make_doc(ideal.edges)
    p_built, nn_b, ne_b = F.make_doc(built.edges)
    traces = [F.trace_of(r) for r in recs]
    shown_devs = F.AS_BUILT_I + ["DevResultAsOpenErr"]
    devsets = [("asbuilt", F.AS_BUILT)] + [("without-" + d, [x for x in F.AS_BUILT if x != d]) for d in shown_devs] + \
              [("ideal", [])]
    vjobs, evs = F.validate_jobs(ctx, traces, dict(cs, MaxRecv=8), devsets)

    with ThreadPoolExecutor(max_workers=2) as ex:
        f_rep = ex.submit(F.replay, ctx, binpath, [("ideal", p_ideal), ("asbuilt", p_built)], 4 if ctx.quick() else 6,
                          os.environ.get("VERIF_CORRUPT_FS", ""))
        f_val = ex.submit(F.tlc_many, ctx, vjobs, 6)
        rep = f_rep.result()
        vres = [F.trace_result(r, evs) for r in f_val.result()]

    # ---- verdicts: replay
    built_ix = R.index_relation([e for e in built.edges], F.base_act)
    ideal_ix = R.index_relation([e for e in ideal.edges], F.base_act)
    seen = {}
    unexplained = []
    for mm in rep["ideal"]["mismatches"]:
        devs = F.classify(mm, built_ix)
        mm["classified"] = devs
        mm["what"] = "real responder departs from the ideal FileStream.tla (%s): %s" % (", ".join(devs) or "unexplained", F.describe(mm))
        if not devs:
            mm["key"] = "FileStream:unexplained:%s:%s" % (F.compact(mm.get("a", {})), mm["cfg"].get("kind"))
            unexplained.append(mm)
        for d in devs:
            seen.setdefault(d, mm["what"])
    fixed_seen = []
    for mm in rep["asbuilt"]["mismatches"]:
        # the real responder behaves like the IDEAL design where the as-built relation has a deviation: a repaired deviation,
        # not a violation
        key = (vf.canon(mm["s"]), vf.canon(F.base_act(mm["spec_a"])))
        if mm["spec_a"].get("dev") and any(vf.canon(F.expected(e["t"], e["a"])) == vf.canon(mm["real"]) for e in ideal_ix.get(key, [])):
            fixed_seen.append({"devs": sorted(mm["spec_a"]["dev"]), "at": F.compact(mm.get("a", {}))})
            continue
        mm["key"] = "FileStream:unexplained:asbuilt:%s:%s" % (F.compact(mm.get("a", {})), mm["cfg"].get("kind"))
        mm["what"] = "real responder departs from FileStream.tla with Dev = AS_BUILT: %s" % F.describe(mm)
        unexplained.append(mm)
    for mm in F.confirm(ctx, binpath, unexplained, [("ideal", p_ideal), ("asbuilt", p_built)], os.environ.get("VERIF_CORRUPT_FS", "")):
        ctx.finding(mm["key"], mm["what"], slim(mm))
    for d, what in sorted(seen.items()):
        if d in F.SITE:
            ctx.finding("FileStream:%s:%s" % (d, F.SITE[d]), what, {"deviation": d})
        else:
            ctx.finding("FileStream:%s:unlisted" % d, what, {"deviation": d})

    # ---- verdicts: recorded scenarios of the real initiator
    byname = dict(zip([n for n, _ in devsets], vres))
    v_built, v_ideal = byname["asbuilt"], byname["ideal"]
    shown = {}
    if not v_built["accepted"] and not v_ideal["accepted"]:
        # a rejected run is recorded and validated once more before it becomes a verdict (the scenarios run in real time on
        # a shared machine); it is reported when the same scenario is rejected again
        first = v_built["scenario"]
        recs2 = F.run_honest(ctx, binpath, scens)
        traces2 = [F.trace_of(r) for r in recs2]
        vjobs2, evs2 = F.validate_jobs(ctx, traces2, dict(cs, MaxRecv=8), [("asbuilt2", F.AS_BUILT), ("ideal2", [])])
        v2 = [F.trace_result(r, evs2) for r in F.tlc_many(ctx, vjobs2, 2)]
        ctx.log("recorded scenarios: %s rejected; second recording: %s" % (first, "accepted" if (v2[0]["accepted"] or v2[1]["accepted"])
                                                                           else "rejected at " + str(v2[0]["scenario"])))
        if v2[0]["accepted"] or v2[1]["accepted"] or v2[0]["scenario"] != first:
            v_built = dict(v_built, accepted=True, unconfirmed=first)
        else:
            recs, v_built = recs2, v2[0]
    if not v_built["accepted"] and not v_ideal["accepted"]:
        ev = v_built["event"] or {}
        what = ("a recorded run of the real initiator (scenario %s) is not a behaviour of FileStream.tla with Dev = AS_BUILT: "
                "event #%s %s cannot be matched" % (v_built["scenario"], v_built["hw"], vf.canon(ev))) if not v_built["violated"] or \
            v_built["violated"] == "rejected" else \
            "a recorded run of the real initiator violates %s" % v_built["violated"]
        ctx.finding("FileStream:unexplained:trace:%s:%s" % (v_built["scenario"], ev.get("ev")), what,
                    {"event": ev, "scenario": v_built["scenario"], "records": [r for r in recs if r["sc"]["name"] == v_built["scenario"]]})
    elif v_built["accepted"] and not v_built.get("unconfirmed"):
        for d in shown_devs:
            w = byname["without-" + d]
            shown[d] = not w["accepted"]
            if shown[d]:
                rec = next((r for r in recs if r["sc"]["name"] == w["scenario"]), None)
                ctx.finding("FileStream:%s:%s" % (d, F.SITE[d]),
                            "real initiator / responder pair shows %s in scenario %s: event %s is not a step of the specification "
                            "without that deviation (call returned %s %r, destination %s, responder table %s, staging %s, "
                            "initiator streams left %s)" % (
                                d, w["scenario"], vf.canon(w["event"]), rec and rec["result"], rec and rec["err"], rec and rec["dst"],
                                rec and rec["table"], rec and rec["tmp"], rec and rec["istreams"]),
                            {"deviation": d, "scenario": w["scenario"], "event": w["event"], "record": rec})

    nsteps = rep["ideal"]["steps"] + rep["asbuilt"]["steps"]
    ctx.evidence("model_checking",
                 assumptions=["bounded model: one transfer per behaviour; set-ups %s; sizes in units of %d bytes, limit %d units, "
                              "frame buffer %d units, uploads up to %s units in frames of %s (FIN frames %s) units" % (
                                  [short(c) for c in rcfgs + hcfgs], F.UNIT, F.MAX, F.CHUNK, cs["MaxRecv"], cs["DataN"], cs["FinN"]),
                              "the finishing goroutine (copy to the final name / serving the download) is atomic with the frame that "
                              "starts it: the replay waits for the complete reaction before the next frame",
                              "before the open and after the end only Data(1) and Close are sent as representatives of the frames "
                              "that are ignored there; the stranger opens at most once",
                              "honest scenarios: consecutive data frames of the real initiator are one Data event; timing of the "
                              "two cancelled transfers comes from the rate limiter (cancel after 500 ms, the transfer needs >= 2.5 s)"],
                 states=ideal.distinct + built.distinct, transitions=ideal.generated + built.generated,
                 traces_validated_against_impl=rep["ideal"]["paths"] + rep["asbuilt"]["paths"] + len(recs),
                 exhaustive=True,
                 ideal_states=ideal.distinct, ideal_transitions=ideal.generated, asbuilt_states=built.distinct,
                 asbuilt_transitions=built.generated, replay_edges=ne_i + ne_b,
                 replayed_paths=rep["ideal"]["paths"] + rep["asbuilt"]["paths"], replayed_steps=nsteps,
                 replay_actions={a: rep["ideal"]["acts"].get(a, 0) + rep["asbuilt"]["acts"].get(a, 0)
                                 for a in set(rep["ideal"]["acts"]) | set(rep["asbuilt"]["acts"])},
                 ideal_replay_mismatches=len(rep["ideal"]["mismatches"]),
                 ideal_replay_mismatches_by_deviation={d: sum(1 for m in rep["ideal"]["mismatches"] if d in m.get("classified", []))
                                                       for d in F.AS_BUILT_R},
                 asbuilt_replay_mismatches=len(rep["asbuilt"]["mismatches"]), repaired_deviations_observed=fixed_seen,
                 honest_scenarios=len(recs), honest_events=len(evs), trace_accepted_asbuilt=v_built["accepted"],
                 trace_unconfirmed_rejection=v_built.get("unconfirmed"),
                 trace_accepted_ideal=v_ideal["accepted"], trace_deviations_shown=shown,
                 deviations_caught=caught, as_built=F.AS_BUILT,
                 samples=[{"replayed_path": [F.compact(s["a"]) for s in p["steps"]], "cfg": p["cfg"]} for p in p_ideal[:2]] +
                         [{"honest_scenario": r["sc"]["name"], "result": r["result"], "dst": r["dst"],
                           "events": [e["ev"] for e in F.trace_of(r)]} for r in recs[:2]])


def short(c):
    if c["kind"] == "up":
        s = "up/%s" % c["dest"]
    else:
        s = "down/%d" % c["fsize"]
    if not c["enabled"]:
        s += "/disabled"
    if c["honest"]:
        s += "/honest"
    return s


def slim(mm):
    return {k: v for k, v in mm.items() if k not in ("s", "spec_t")}
