# C38 - Stream identifiers are unique per connection and parity-separated by role
#
# Interpretation (permissive side): the statement asks for nonzero, unique per end, odd on the dialing side / even on
# the accepting side (hence disjoint across the two ends).  It does NOT ask for consecutive identifiers; the spec
# (spec/StreamId.tla) is the most general allocator with those properties (id = counter + 2k, k >= 0) and the real
# allocator is validated as a refinement of it.  Gaps (k > 0) are measured and reported in the evidence, they are not
# a verdict.  The edge replay (sequential) uses the k = 0 instance, i.e. exactly the code's "add two" arithmetic;
# a replay mismatch is only a finding if the real identifiers break the statement, otherwise it is a binding drift
# (exit 2: the spec no longer models the code).
# NextStreamID has no error result, so an identifier handed out after (or while) the connection is closed is an
# allocated identifier like any other: nonzero and unique (Close action of the spec changes nothing in the allocator).
# Concurrency is exercised two ways: long runs on one warm object, and thousands of FRESH allocator / connection
# pairs each hit by a burst of goroutines released together (the very first allocations are concurrent).
import os, json
import vf

INVS = "NonZero UniquePerEnd Parity Disjoint CounterAhead"
DEVS = ["DevNonAtomic", "DevSameParity", "DevStartZero", "DevStepOne", "DevLazySeed", "DevZeroAfterClose"]
H_TR = ["common/common_test.go.tmpl", "transport/streamid_test.go"]
H_PEER = ["common/common_test.go.tmpl", "peer/streamid_test.go"]


def cfg(maxalloc, maxskip, threads, dev=(), emit=False, invs=INVS):
    return ("CONSTANTS MaxAlloc = %d MaxSkip = %d Threads = {%s} Dev = {%s} Ghost = TRUE Emit = %s\n"
            "INIT Init\nNEXT NextStep\nVIEW view\nACTION_CONSTRAINT EmitEdge\n%s" % (
                maxalloc, maxskip, ",".join('"%s"' % t for t in threads), ",".join('"%s"' % d for d in dev),
                "TRUE" if emit else "FALSE", ("INVARIANTS " + invs + "\n") if invs else ""))


def statement_broken(summ):
    return {k: summ[k] for k in ("zero", "dup_per_end", "parity_bad", "cross_end", "role_bad", "zero_after_close",
                                 "dup_after_close") if summ.get(k)}


def validate(ctx, name, tracefile, what):
    v = ctx.validate_trace("TraceStreamId", "TraceStreamId.cfg", tracefile, name=name)
    if v["violated"] and v["violated"] != "rejected":
        ctx.finding("StreamId:%s:trace-invariant:%s" % (what, v["violated"]),
                    "identifiers allocated by the real %s violate %s of StreamId.tla" % (what, v["violated"]),
                    {"tlc_tail": v["res"].out[-2500:]})
    elif not v["accepted"]:
        ev = v["event"]
        ctx.finding("StreamId:%s:trace-rejected" % what,
                    "identifiers allocated by the real %s are not a behaviour of StreamId.tla (an identifier below the "
                    "counter = handed out twice, or of the wrong parity): event #%s %s" % (what, v["hw"], ev),
                    {"event_index": v["hw"], "event": ev, "context": v["context"]})
    return v


def run(ctx):
    q = ctx.quick()
    # ---- 1. TLC: general allocator (k free), all interleavings of both ends
    ma, ms = (3, 1) if q else (5, 2)
    gen = ctx.tlc("StreamId", "MCgen.cfg", files={"MCgen.cfg": cfg(ma, ms, [])})
    if gen.violated:
        raise vf.Infra("ideal StreamId spec violates %s (specification error)" % gen.violated)
    # the code's instance k = 0, with edge emission for replay
    ideal = ctx.tlc("StreamId", "MC.cfg", files={"MC.cfg": cfg(4 if q else 7, 0, [], emit=True)})
    if ideal.violated:
        raise vf.Infra("ideal StreamId spec (k=0) violates %s" % ideal.violated)
    caught = {}
    for d in DEVS:
        r = ctx.tlc("StreamId", "MCdev.cfg", files={"MCdev.cfg": cfg(2, 0, ["t1", "t2"], dev=[d])}, expect_violation=True)
        if not r.violated:
            raise vf.Infra("deviation %s not detected by the invariants (vacuous model)" % d)
        caught[d] = r.violated

    # ---- 2. replay of the edge cover on a real allocator pair
    paths, nnodes, nedges = vf.path_cover(ideal.edges)
    inp = vf.write_json(os.path.join(ctx.work, "sid_paths.json"), {"paths": paths})
    if q:
        g, m, rounds, seq = 8, 1000, 2, 300
        cg, cm, crounds = 8, 1000, 2
    else:
        g, m, rounds, seq = 32, 10000, 2, 5000
        cg, cm, crounds = 32, 10000, 2
    out1 = os.path.join(ctx.work, "sid_alloc.ndjson")
    r = ctx.gotest("transport", H_TR, "^(TestZZVStreamIdReplay|TestZZVStreamIdTrace)$", race=True, timeout=1500,
                   env={"ZZV_IN": inp, "ZZV_OUT": out1, "ZZV_G": g, "ZZV_M": m, "ZZV_ROUNDS": rounds, "ZZV_SEQ": seq,
                        "ZZV_FRESH": 1000 if q else 30000, "ZZV_CORRUPT": os.environ.get("ZZV_CORRUPT", "")})
    r1 = r
    tsum = {x.get("test"): x for x in r.of("summary")}
    rs = [tsum["replay"]] if tsum.get("replay") else []
    if not rs:
        raise vf.Infra("replay harness produced no summary:\n" + r.out[-2000:])
    mism = r.of("mismatch")
    drift = []
    for mm in mism:
        a = mm.get("a", {})
        rid = mm.get("real_id")
        e = a.get("e")
        if mm.get("step", -1) < 0:
            if "IsDialer" in mm.get("why", ""):
                continue
            rt = mm.get("real_t", {}).get("next", {})
            if rt.get("D", 1) % 2 != 1 or rt.get("A", 2) % 2 != 0 or rt.get("A") == 0 or rt.get("D") == 0:
                ctx.finding("StreamId:allocator:initial-counter",
                            "a fresh allocator pair starts at D=%s A=%s (must be odd/even and nonzero)" % (rt.get("D"), rt.get("A")), mm)
            else:
                drift.append(mm)
            continue
        bad = rid == 0 or (e == "D") != (rid % 2 == 1) or rid < mm["s"]["next"][e]
        if bad:
            ctx.finding("StreamId:allocator:sequential:%s" % ("zero" if rid == 0 else "parity" if (e == "D") != (rid % 2 == 1) else "repeat"),
                        "sequential Next on end %s in state %s returned %s (spec %s)" % (e, vf.canon(mm["s"]), rid, mm.get("spec_id")), mm)
        else:
            drift.append(mm)

    # ---- 3. trace validation: allocator pair, then a real connection pair
    s1 = tsum.get("trace")
    if not s1:
        raise vf.Infra("trace harness produced no summary:\n" + r1.out[-2000:])
    b1 = statement_broken(s1)
    if b1:
        ctx.finding("StreamId:allocator:" + "+".join(sorted(b1)),
                    "StreamIDAllocator pair, %d allocations by %d goroutines: %s" % (s1["allocated"], s1["goroutines"], b1), s1)
    out2 = os.path.join(ctx.work, "sid_conn.ndjson")
    out3 = os.path.join(ctx.work, "sid_fresh.ndjson")
    r3 = ctx.gotest("peer", H_PEER, "^(TestZZVStreamIdConn|TestZZVStreamIdConnReplay|TestZZVStreamIdFresh)$", race=True, timeout=1500,
                    env={"ZZV_IN": inp, "ZZV_OUT_CONN": out2, "ZZV_G": cg, "ZZV_M": cm, "ZZV_ROUNDS": crounds,
                         "ZZV_OUT": out3, "ZZV_FRESH": 2000 if q else 40000, "ZZV_FRESH_G": 6 if q else 8,
                         "ZZV_REAL_EVERY": 20 if q else 40})
    sums = {x.get("test"): x for x in r3.of("summary")}
    s2 = sums.get("conn")
    if not s2:
        raise vf.Infra("connection harness produced no summary:\n" + r3.out[-2000:])
    b2 = statement_broken(s2)
    if b2:
        ctx.finding("StreamId:connection:" + "+".join(sorted(b2)),
                    "both ends of a real connection pair (peer.Connection.NextStreamID), %d allocations by %d goroutines: %s"
                    % (s2["allocated"], s2["goroutines"], b2), s2)
    # ---- 4. connections: replay with Close (sequential), fresh pairs under a burst, close-then-allocate
    s3, s4 = sums.get("connreplay"), sums.get("fresh")
    if not s3 or not s4:
        raise vf.Infra("connection replay / fresh harness produced no summary:\n" + r3.out[-2000:])
    for mm in r3.of("mismatch"):
        rid, e = mm["real_id"], mm["e"]
        hist = mm.get("history", [])
        if rid == 0:
            kind = "zero-after-close" if mm.get("closed") else "zero"
        elif (e == "D") != (rid % 2 == 1):
            kind = "parity"
        elif any(h == "Next(%s)=%d" % (e, rid) for h in hist[:-1]):
            kind = "repeat-after-close" if mm.get("closed") else "repeat"
        else:
            drift.append(mm)
            continue
        ctx.finding("StreamId:connection:sequential:%s" % kind,
                    "peer.Connection.NextStreamID on end %s returned %s (spec %s) after %s" % (e, rid, mm.get("spec_id"), " ".join(hist[:-1])), mm)
    b4 = statement_broken(s4)
    if b4:
        ctx.finding("StreamId:fresh-connection:" + "+".join(sorted(b4)),
                    "%d fresh connection pairs (%d real), first allocations by %d concurrent goroutines, Close racing with / "
                    "preceding allocations: %s" % (s4["fresh_pairs"], s4["real_pairs"], s4["goroutines"], b4), s4)
    # one TLC run validates the three recorded files (executions are separated by Reset events)
    allf = os.path.join(ctx.work, "sid_all.ndjson")
    bounds = []
    with open(allf, "w") as w:
        n = 0
        for what, fn in (("allocator", out1), ("connection", out2), ("fresh-connection", out3)):
            for line in open(fn):
                if line.strip():
                    w.write(line)
                    n += 1
            bounds.append((n, what))
    v = ctx.validate_trace("TraceStreamId", "TraceStreamId.cfg", allf, name="sid_all", timeout=1500)
    if not v["accepted"]:
        at = v["hw"] or 0
        what = next((wh for n_, wh in bounds if at <= n_), bounds[-1][1])
        if v["violated"] and v["violated"] != "rejected":
            ctx.finding("StreamId:%s:trace-invariant:%s" % (what, v["violated"]),
                        "identifiers allocated by the real %s violate %s of StreamId.tla" % (what, v["violated"]),
                        {"tlc_tail": v["res"].out[-2500:]})
        else:
            ctx.finding("StreamId:%s:trace-rejected" % what,
                        "identifiers allocated by the real %s are not a behaviour of StreamId.tla (zero, below the counter = "
                        "handed out twice, or of the wrong parity): event #%s %s" % (what, v["hw"], v["event"]),
                        {"event_index": v["hw"], "event": v["event"], "context": v["context"]})
    v1 = v2 = v4 = v

    if drift and not ctx.violations:
        raise vf.Infra("binding drift: the real allocator no longer follows the k=0 arithmetic of StreamId.tla although "
                       "the statement holds on it: %s" % drift[0])

    ctx.evidence("model_checking",
                 assumptions=["the model bounds the number of allocations per end (%d with k<=%d, %d with k=0); wrap-around of the "
                              "64-bit counter (2^63 allocations) is outside the statement" % (ma, ms, 4 if q else 7),
                              "concurrent part: interleavings are those the Go scheduler produced under -race; the order of the "
                              "atomic steps per end is reconstructed from the identifier values",
                              "real connection pair = plain-text WebSocket transport on loopback (role comes from "
                              "PeerConn.IsDialer of the transport)"],
                 states=gen.distinct + ideal.distinct, transitions=gen.generated - 1 + nedges,
                 traces_validated_against_impl=2 * len(paths) + s1["rounds"] + s2["rounds"] + s4["rounds"],
                 exhaustive=True,
                 replayed_paths=len(paths), replayed_steps=rs[0]["steps"], replay_mismatches=len(mism),
                 allocator_allocations=s1["allocated"], allocator_goroutines=s1["goroutines"], allocator_gaps=s1["gaps"],
                 connection_allocations=s2["allocated"], connection_goroutines=s2["goroutines"], connection_gaps=s2["gaps"],
                 fresh_allocator_pairs=s1.get("fresh_pairs"), fresh_connection_pairs=s4["fresh_pairs"],
                 fresh_real_transport_pairs=s4["real_pairs"], fresh_connection_allocations=s4["allocated"],
                 connection_replay_steps=s3["steps"], connection_replay_mismatches=s3["mismatches"],
                 trace_events=s1["events"] + s2["events"] + s4["events"], trace_highwater=[v1["hw"], v2["hw"], v4["hw"]],
                 deviations_caught=caught,
                 samples=[{"replay_path": [s["a"] for s in paths[0]["steps"]][:8]},
                          {"allocator_trace_events": s1.get("samples")}, {"connection_trace_events": s2.get("samples")},
                          {"fresh_connection_bursts": s4.get("samples")}])
