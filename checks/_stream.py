# Stream.tla <-> internal/stream Manager / Stream   (C18)
import os, json
import vf, _replay as R

MODULE = "Stream"
INVS = "TypeOK DataBeforeEOF Fifo"
PROPS = "WritesRefused ReadsContinue Isolation DocumentedEdges"
DEVS = ["DevFinBeforeData", "DevCloseTearsAll", "DevWriteAfterHalfClose", "DevHalfCloseReopens", "DevResetCancelsPending"]
# which property of the statement each deviation breaks (what TLC must report)
DEV_CAUGHT_BY = {"DevFinBeforeData": "DataBeforeEOF", "DevCloseTearsAll": "Isolation",
                 "DevWriteAfterHalfClose": "WritesRefused", "DevHalfCloseReopens": "DocumentedEdges",
                 "DevResetCancelsPending": "Isolation"}
HFILES = ["common/common_test.go.tmpl", "stream/stream_test.go"]
STREAMS = ("a", "b")


def base_act(a):
    return {k: v for k, v in a.items() if k in ("act", "s", "hd", "fin", "kind")}


FIELDS = ("st", "reg", "buf", "lfin", "rfin", "closed", "rdpc", "rdchunk", "rdeof", "rdtorn", "nreads", "nsent",
          "arrived", "finSeen", "delivered", "lost")


def unpack(p):
    """named form of the compact state encoding emitted by Stream.tla (operator Packed)"""
    out = {s: dict(zip(FIELDS, p[s])) for s in STREAMS}
    out["fh"] = dict(zip(("pc", "s", "k", "fin"), p["fh"]))
    out["nframes"] = p["nf"]
    out["pend"] = p["pend"]
    return out


def pack_vars(v):
    """TLC variable valuation (counterexample dump) -> compact state encoding"""
    out = {}
    for s in STREAMS:
        r = v["rd"][s]
        out[s] = [v["st"][s], v["reg"][s], v["buf"][s], v["lfin"][s], v["rfin"][s], v["closed"][s], r["pc"], r["chunk"],
                  r["eof"], r["torn"], v["nreads"][s], v["nsent"][s], v["arrived"][s], v["finSeen"][s],
                  v["delivered"][s], v["lost"][s]]
    f = v["fh"]
    out["fh"] = [f["pc"], f["s"], f["k"], f["fin"]]
    out["nf"] = v["nframes"]
    out["pend"] = v["pend"]
    return out


def cex_doc(trace):
    """counterexample written by TLC (-dumpTrace json) -> compact path document with one path"""
    sts = [x[1] for x in trace["counterexample"]["state"]]
    return {"states": [pack_vars(s) for s in sts],
            "paths": [{"init": 0, "steps": [{"a": sts[i]["last"], "t": i} for i in range(1, len(sts))]}]}


def is_init(p):
    u = unpack(p)
    return (u["nframes"] == 0 and u["pend"] and u["a"]["st"] == "Opening" and u["b"]["st"] == "Open" and u["b"]["reg"]
            and not any(u[s]["lfin"] or u[s]["rfin"] or u[s]["closed"] or u[s]["nreads"] for s in STREAMS))


def proj(p):
    """the projection the Go harness observes on the real objects (zzvStProj)"""
    u = unpack(p)
    o = {"st": {}, "reg": {}, "nbuf": {}, "lfin": {}, "rfin": {}, "closed": {}, "rd": {}, "rdres": {}, "fh": u["fh"]["pc"],
         "pend": u["pend"], "npend": 1 if u["pend"] else 0}
    for s in STREAMS:
        x = u[s]
        o["st"][s], o["reg"][s], o["nbuf"][s] = x["st"], x["reg"], len(x["buf"])
        o["lfin"][s], o["rfin"][s], o["closed"][s] = x["lfin"], x["rfin"], x["closed"]
        o["rd"][s] = x["rdpc"]
        o["rdres"][s] = "" if x["rdpc"] != "ready" else ("eof" if x["rdeof"] else "d%d" % x["rdchunk"])
    return o


def same_result(a, mm):
    if a.get("res") != mm.get("real_res"):
        return False
    if a.get("chunk", 0) != mm.get("real_chunk", 0):
        return False
    if a.get("act") in ("Close", "Reset"):
        return all(bool(a.get("torn", {}).get(s)) == bool(mm.get("real_torn", {}).get(s)) for s in STREAMS)
    return True


def consts(ctx):
    if ctx.quick():
        return {"MaxFrames": 1, "MaxReads": 2}
    return {"MaxFrames": 2, "MaxReads": 2}


def model(ctx, extra_jobs=()):
    """TLC: the ideal spec satisfies the properties (edges emitted); every deviation is caught by the property it breaks"""
    c = consts(ctx)
    small = {"MaxFrames": 1, "MaxReads": 2}
    jobs = [dict(module=MODULE, name="ideal", workers=4, heap="12g",
                 cfg=R.cfg_text(c, emit=True, invs=INVS, props=PROPS))]
    for d in DEVS:
        jobs.append(dict(module=MODULE, name="dev" + d, workers=1, expect_violation=True,
                         cfg=R.cfg_text(small, dev=[d], emit=False, invs=INVS, props=PROPS)))
    extra_jobs = list(extra_jobs)
    big = None
    if not ctx.quick():
        # properties only (no edge emission, no replay) on a larger instance
        big = {"MaxFrames": 3, "MaxReads": 3}
        jobs.append(dict(module=MODULE, name="big", workers=6, heap="16g",
                         cfg=R.cfg_text(big, emit=False, invs=INVS, props=PROPS)))
    res = R.tlc_many(ctx, jobs + extra_jobs)
    extra = res[len(jobs):]
    res = res[:len(jobs)]
    ideal = res[0]
    if ideal.violated:
        raise vf.Infra("ideal Stream spec violates %s (specification error)" % ideal.violated)
    if big:
        b = res.pop()
        if b.violated:
            raise vf.Infra("ideal Stream spec violates %s on %s (specification error)" % (b.violated, big))
        ctx.add("bigger_model_states", b.distinct)
        ctx.add("bigger_model_transitions", b.generated)
        ctx.cov["bigger_model_constants"] = big
    caught = {}
    for d, r in zip(DEVS, res[1:]):
        caught[d] = r.violated
        if r.violated != DEV_CAUGHT_BY[d]:
            raise vf.Infra("deviation %s: TLC reported %s, expected a violation of %s (vacuous model?)" % (
                d, r.violated, DEV_CAUGHT_BY[d]))
    return c, ideal, caught, extra


def dev_relations(ctx, c):
    """transition relation of the same bounded model with exactly one deviation enabled, per deviation"""
    res = R.tlc_many(ctx, [dict(module=MODULE, name="rel" + d, workers=2, heap="8g", cfg=R.cfg_text(c, dev=[d], emit=True))
                           for d in DEVS])
    return {d: R.index_relation(r.edges, base_act) for d, r in zip(DEVS, res)}


def replay(ctx, binpath, doc, tag, env=None, nproc=4):
    # VERIF_CORRUPT=<n>: self-test of the binding - the harness falsifies the expected state of its n-th step
    env = dict(env or {}, ZZV_CORRUPT=os.environ.get("VERIF_CORRUPT", "0"))
    return R.replay_parallel(ctx, binpath, "^TestZZVStreamReplay$", doc, "stream_" + tag, nproc=nproc, env=env)


def build(ctx):
    return R.build_test_binary(ctx, "stream", HFILES)
