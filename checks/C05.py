# C05 - Wire codecs are lossless and total
#
# Interpretation (permissive side, see DESIGN.md C05):
# * "within their wire limits": every length / count fits its length field, NodeInfo lists respect the encoder's
#   documented maxima (50 peers, 20 listeners, 10 shells), domain-style addresses and prefixes carry a consistent
#   length byte, ROUTE_WITHDRAW carries fixed-length prefixes only (its encoder cuts every prefix to the family's
#   fixed size; the code base only withdraws CIDR routes), bound addresses are IPv4 / IPv6 / absent (type 0).
#   Route counts above 255 are C06's subject.
# * "the same message": equal field by field, nil and empty slices identified; an advertisement whose plaintext
#   path / node info is wrapped in an unencrypted EncryptedData (what Decode always produces) equals the one
#   without wrapper.
# * "fails cleanly or yields a message that re-encodes to an equivalent message": Decode(b) = d without error
#   implies Decode(Encode(d)) = d (no demand that Encode(d) = b: trailing bytes and lenient tails are allowed).
# * legacy encodings (node info of an older protocol version, ending before the fields appended since) are part of
#   "decoding arbitrary bytes": they must decode to the message with those fields at their zero value.
# * frames have two decode paths, Decode on a slice and the streaming FrameReader.Read; both are "the decoder": they
#   must agree on accept / reject and on the frame for the same bytes (error kinds may differ), and the allocation
#   bound applies to the FrameReader call with len(input) = bytes the stream delivers.  Frame.Encode,
#   FrameWriter.Write and WriteFrame must produce the same bytes and all refuse payloads above MaxPayloadSize.
# * "out of proportion": bytes allocated during one Decode call <= 1 MiB + 64 * len(input) (DESIGN.md).
import vf, _codec as K


def run(ctx):
    ideal, vecs, hostile, streams, caught = K.model(ctx)
    summ, viols = K.harness(ctx, vecs, hostile, streams)
    for v in viols:
        key, text = K.classify(ctx, v, vecs)
        ctx.finding(key, text, v)
    if summ is None:      # harness process died after recording these violations
        ctx.evidence("exploration", assumptions=["harness process died after the recorded violations"],
                     evaluations=len(viols), distinct_nontrivial=max(2, len(viols)), rule="partial run", samples=viols[:2])
        return
    shapes = set((v["ty"], vf.canon(v["sk"])) for v in vecs)
    ctx.evidence(
        "exploration",
        assumptions=[
            "boundary shapes only: every length field in {0,1,max-1,max} (more values in the thorough tier), counts in "
            "{0,1,2,max}, one field at a time around a default message plus all-minimal / all-maximal, all "
            "combinations of the optional sleep / wake commands (signed / unsigned, SeenBy 0,1,2,255)",
            "content bytes come from a seeded stream of non-zero bytes (signatures all-zero or non-zero)",
            "allocation measured with runtime.MemStats.TotalAlloc around single decoder calls on one goroutine; bound "
            "1 MiB + 64*len(input)",
            "arbitrary-bytes half of the statement is seeded search (strict prefixes, structural-cell overwrites, byte "
            "mutations, random strings up to one frame), not exhaustive",
        ],
        evaluations=summ["evaluations"],
        distinct_nontrivial=len(shapes) + summ["distinct_accepted"],
        rule="TLC enumerates the boundary shapes of every message grammar of Codec.tla (distinct skeletons; each is "
             "non-trivial: it is encoded, compared byte-wise with the spec layout, decoded and compared); hostile inputs "
             "= strict prefixes, overwritten length/count/tag cells, seeded byte mutations and random strings; a hostile "
             "input counts as non-trivial when the decoder accepts it (the re-encode oracle is then exercised), "
             "distinct by SHA-256 of (type, bytes)",
        exhaustive=False,
        tlc_shapes=len(vecs), tlc_states=ideal.distinct, message_types=len(summ["per_type"]),
        shapes_per_type=summ["per_type"], strict_prefixes=summ["prefixes"], cell_mutations=summ["cell_mutations"],
        byte_mutations=summ["byte_mutations"], random_inputs=summ["random_inputs"],
        legacy_encodings=summ["legacy_shapes"],
        hostile_header_vectors=summ["stream_vectors"], stream_path_evaluations=summ["stream_path_evaluations"],
        framed_shapes=summ["framed_shapes"], hostile_header_results=summ["stream_results"][-6:],
        hostile_count_vectors=summ["hostile"], accepted_hostile_inputs=summ["accepted"],
        alloc_measured=summ["alloc_measured"], max_alloc_bytes=summ["max_alloc"], max_alloc_type=summ["max_alloc_type"],
        layout_mismatches=summ["bind_errors"], deviations_caught=caught,
        violation_classes=summ["violation_classes"],
        samples=summ["samples"] + [{"hostile_vector": summ["hostile"][-1]}] if summ["hostile"] else summ["samples"])
