# Relay.tla <-> real agents on the controlled mesh   (C16, C17)
#
# Shared by checks/C16.py and checks/C17.py.
#   cfg()          text of a TLC configuration of spec/Relay.tla
#   ideal()/devs() the ideal design holds on the bounded instances, every deviation is caught
#   relation()     transition relation of the code-faithful configuration, emitted as JSON edges
#   replay()       path cover of a relation replayed frame by frame into real agents (harness/agent/relay_test.go)
#   cex_replay()   a TLC counterexample of a deviation replayed on the real code (does the code have that defect?)
#   scenarios()    operation-level histories for TCP / port forward / UDP / ICMP with the end-to-end oracle
import os, json, re
import vf

HFILES = ["common/common_test.go.tmpl", "agent/cmesh_test.go", "agent/relay_test.go"]
XPKGS = {"exit": ["exit/relay_access.go"], "forward": ["forward/relay_access.go"]}

ALL_INVS = "TypeOK Isolation ByteExact IndexConsistent CounterExact BookkeepingEmpty NoEntryForDeadPeer NoStaleEntry"
SITES = ["ingress", "relay", "exit"]
# site of the model -> site name used in finding keys, per harness variant
SITE_KEY = {("ingress", "tcp"): "ingress-stream-table", ("ingress", "forward"): "ingress-stream-table",
            ("relay", "tcp"): "relay-table", ("relay", "forward"): "relay-table",
            ("exit", "tcp"): "exit-handler", ("exit", "forward"): "forward-handler"}
DEVS = ["DevUdpIcmpRelayNotCleaned", "DevNoReverseIndexDelete", "DevCounterLeakOnOpenFail", "DevDataNoPeerCheck"]


def sset(xs):
    return "{" + ",".join('"%s"' % x for x in xs) + "}"


def cfg(topo, ntun=2, kinds=("tcp", "tcp", "tcp"), keying="peer+sid", sites=SITES, dev=(), ops=("tclose",), maxf=1, maxr=0,
        emit=False, invs=ALL_INVS, view="view", constraint=None, split=False, bufcap=0, burn=()):
    s = ('CONSTANTS Topo = "%s" NTun = %d Kind1 = "%s" Kind2 = "%s" Kind3 = "%s" Keying = "%s"\n'
         ' SidSites = %s Dev = %s Ops = %s MaxF = %d MaxR = %d Emit = %s\n'
         ' Split = %s BufCap = %d Burn = %s\n'
         'INIT Init\nNEXT Next\nVIEW %s\nACTION_CONSTRAINT EmitEdge\n' % (
             topo, ntun, kinds[0], kinds[1], kinds[2], keying, sset(sites), sset(dev), sset(ops), maxf, maxr,
             "TRUE" if emit else "FALSE", "TRUE" if split else "FALSE", bufcap, sset(burn), view))
    if invs:
        s += "INVARIANTS " + invs + "\n"
    if constraint:
        s += "CONSTRAINT " + constraint + "\n"
    return s


def tlc(ctx, name, text, **kw):
    return ctx.tlc("Relay", name + ".cfg", files={name + ".cfg": text}, name=name, **kw)


# ------------------------------------------------------------------------------------------------ model checking
def ideal(ctx, instances):
    """instances: list of dict(topo, ntun, ops, maxf, maxr, kinds).  The ideal design must satisfy every invariant."""
    out = []
    for i, inst in enumerate(instances):
        r = tlc(ctx, "ideal%d" % i, cfg(inst["topo"], inst.get("ntun", 2), inst.get("kinds", ("tcp",) * 3), "peer+sid",
                                         ops=inst.get("ops", ("tclose",)), maxf=inst.get("maxf", 1), maxr=inst.get("maxr", 0)),
                simulate=inst.get("simulate"), depth=inst.get("depth"))
        if r.violated:
            raise vf.Infra("ideal Relay spec violates %s on %s (specification error)" % (r.violated, inst))
        out.append((inst, r))
    return out


def cex_actions(res):
    """Counterexample of a TLC run (-dumpTrace json) -> list of states (each with its `last` action record)."""
    tr = res.trace
    if not tr:
        return None
    acts = tr.get("counterexample", {}).get("action") if isinstance(tr, dict) else None
    if not acts:
        return None
    out = [acts[0][0][1]]
    for pre, _info, post in acts:
        out.append(post[1])
    return out


def deviation(ctx, name, topo, *, keying="peer+sid", sites=SITES, dev=(), ops=("tclose",), ntun=2, kinds=("tcp",) * 3,
              maxf=1, maxr=0, invs=ALL_INVS, **kw):
    """One deviation must be caught; returns (TLCResult, violated invariant)."""
    r = tlc(ctx, name, cfg(topo, ntun, kinds, keying, sites, dev, ops, maxf, maxr, invs=invs, **kw), expect_violation=True)
    if not r.violated:
        raise vf.Infra("deviation run %s not detected by the invariants (vacuous model)" % name)
    return r


# ------------------------------------------------------------------------------------------------ relation + replay
def relation(ctx, name, topo, *, keying="sid", sites=SITES, dev=(), ops=("tclose",), ntun=2, maxf=1, maxr=0):
    r = tlc(ctx, name, cfg(topo, ntun, ("tcp",) * 3, keying, sites, dev, ops, maxf, maxr, emit=True, invs="", view="viewCore",
                           constraint="TypeOK"), timeout=1500)
    if r.violated:
        raise vf.Infra("relation run %s failed: %s" % (name, r.violated))
    return r


def strip_act(a):
    return {k: v for k, v in a.items() if k not in ("dev",)}


def compact(paths):
    """paths of vf.path_cover -> (states, acts, compact paths) with states / actions stored once."""
    sidx, aidx, states, acts, out = {}, {}, [], [], []

    def si(s):
        k = vf.canon(s)
        if k not in sidx:
            sidx[k] = len(states)
            states.append(s)
        return sidx[k]

    def ai(a):
        k = vf.canon(a)
        if k not in aidx:
            aidx[k] = len(acts)
            acts.append(a)
        return aidx[k]

    for p in paths:
        out.append({"init": si(p["init"]), "steps": [{"a": ai(st["a"]), "t": si(st["t"])} for st in p["steps"]]})
    return states, acts, out


def is_init(s):
    # the initial state of the spec = a freshly built mesh: nothing allocated, every link up
    return all(x == "idle" for x in s["ti"]) and len(s["linkUp"]) * 2 == len(s["alloc"])


def job(name, topo, variant, edges=None, paths=None, ntun=2, patience_ms=4000, max_len=60, burn=()):
    """One replay job: a path cover of `edges` (or explicit paths) for the harness."""
    nnodes = nedges = 0
    if paths is None:
        es = [{"s": e["s"], "a": e["a"], "t": e["t"]} for e in edges]
        paths, nnodes, nedges = vf.path_cover(es, init_pred=is_init, max_len=max_len)
    states, acts, cpaths = compact(paths)
    return {"name": name, "topo": topo, "variant": variant, "kinds": {str(i + 1): "tcp" for i in range(ntun)},
            "states": states, "acts": acts, "paths": cpaths, "patience_ms": patience_ms, "burn": [list(b) for b in burn],
            "_paths": paths, "_nodes": nnodes, "_edges": nedges}


GATE_POINT = "agent.relay.lookup"
GATE_ANCHORS = ["\tif upRelay != nil && peerID == upRelay.UpstreamPeer {\n",
                "\tif downRelay != nil && peerID == downRelay.DownstreamPeer {\n"]


def gate_overlay(ctx):
    """The two-step relay handler of Relay.tla (RelayLookup / RelaySend) needs an observation point between the
    relay-table lookup (+ peer comparison) and the use of the entry in Agent.handleStreamData.  Until the repository has
    the point "agent.relay.lookup" (proposed verif-hook: first statement of both relay branches of handleStreamData), the
    same add-only line is supplied through the build overlay: the package is compiled from a copy of agent.go with that
    line inserted.  Returns (extra_replace, how)."""
    src = os.path.join(ctx.repo, "internal", "agent", "agent.go")
    try:
        text = open(src).read()
    except OSError:
        return None, "agent.go not found"
    if GATE_POINT in text:
        return None, "repository hook"
    if any(text.count(a) != 1 for a in GATE_ANCHORS) or "internal/verifhook" not in text:
        return None, "anchor not found"
    for a in GATE_ANCHORS:
        text = text.replace(a, a + '\t\tverifhook.At("%s", a, peerID, frame)\n' % GATE_POINT)
    gen = os.path.join(ctx.work, "agent_gate.go")
    with open(gen, "w") as f:
        f.write(text)
    return {src: gen}, "overlay line"


def run_all(ctx, jobs, scs, wait_ms=2000, icmp=True, extra=()):
    """One harness invocation: frame-level replay jobs, operation-level scenarios and the ICMP scenarios.
    Returns (replay results by job name, scenario records, icmp summary)."""
    n = len(os.listdir(ctx.work))
    inp = os.path.join(ctx.work, "relay_jobs_%d.json" % n)
    vf.write_json(inp, {"jobs": [{k: v for k, v in j.items() if not k.startswith("_")} for j in jobs]})
    sci = os.path.join(ctx.work, "relay_sc_%d.json" % n)
    vf.write_json(sci, {"scenarios": scs, "wait_ms": wait_ms})
    names = ["Replay", "Scenario"] + (["ICMP"] if icmp else []) + list(extra)
    repl, how = (gate_overlay(ctx) if "Gate" in extra else (None, ""))
    r = ctx.gotest("agent", HFILES, "^TestZZVRelay(%s)$" % "|".join(names),
                   env={"ZZV_IN": inp, "ZZV_SC": sci, "ZZV_GATE_ROUNDS": 2 if ctx.quick() else 6}, extra_pkgs=XPKGS, timeout=3400,
                   extra_replace=repl)
    ctx.relay_extra = {"gate_via": how}
    for nm, key in (("Gate", "gate-summary"), ("Faults", "faults-summary"), ("Reconnect", "reconnect-summary")):
        if nm in extra:
            sm = r.of(key)
            if not sm:
                raise vf.Infra("relay harness: no %s record:\n%s" % (key, r.out[-2000:]))
            ctx.relay_extra[nm] = sm[0]
    ctx.relay_notes = r.of("note")
    if not r.of("done"):
        raise vf.Infra("relay replay harness did not finish:\n" + r.out[-3000:])
    out = {}
    for sm in r.of("summary"):
        if "job" not in sm:
            continue
        j = jobs[sm["job"]]
        mm = [m for m in r.of("mismatch") if m["job"] == sm["job"]]
        for m in mm:
            m["_path"] = [st["a"] for st in j["_paths"][m["path"]]["steps"][:m["step"] + 1]]
        cp = j["paths"]
        out[j["name"]] = {"paths": len(cp), "steps": sm["steps"], "mismatches": mm, "edges": j["_edges"], "nodes": j["_nodes"],
                          "ms": sm["ms"], "truncated": any(t["job"] == sm["job"] for t in r.of("truncated")),
                          "sample": [j["acts"][s["a"]] for s in cp[len(cp) // 2]["steps"]][:14] if cp else []}
    if len(out) != len(jobs):
        raise vf.Infra("relay replay harness: %d of %d jobs reported" % (len(out), len(jobs)))
    recs = r.of("scenario")
    if len(recs) != len(scs):
        raise vf.Infra("relay scenario harness: %d of %d scenarios reported:\n%s" % (len(recs), len(scs), r.out[-2000:]))
    for rec in recs:
        rec["_ops"] = scs[rec["i"]]["ops"]
    ic = r.of("icmp-summary")
    if icmp and not ic:
        raise vf.Infra("relay ICMP harness produced no summary:\n" + r.out[-2000:])
    return out, recs, (ic[0] if ic else {})


def cex_path(res):
    """TLC counterexample (dumped trace) -> an explicit replay path {init, steps:[{a,t}]} in the emitted State format."""
    sts = cex_actions(res)
    if not sts:
        return None
    def conv(s):
        return {
            "linkUp": [list(k) for k, v in pairs(s["linkUp"]) if v],
            "alloc": [{"s": list(k), "v": v} for k, v in pairs(s["alloc"])],
            "net": [{"s": list(k), "q": v} for k, v in pairs(s["net"]) if v],
            "rup": s["rup"], "rdn": s["rdn"], "ist": s["ist"], "pend": s["pend"], "isid": s["isid"], "xc": s["xc"],
            "zomb": s["zomb"], "xcnt": s["xcnt"], "ti": s["ti"], "tx": s["tx"], "nf": s["nf"], "nr": s["nr"],
            "rcvI": s["rcvI"], "rcvX": s["rcvX"]}
    return {"init": conv(sts[0]), "steps": [{"a": s["last"], "t": conv(s), "viol": s.get("viol", [])} for s in sts[1:]]}


def pairs(f):
    """A TLC function with tuple domain dumped as JSON: {"<<\"A\", \"X\">>": value}."""
    out = []
    for k, v in f.items():
        out.append((tuple(re.findall(r'"([^"]*)"', k)), v))
    return out


# ------------------------------------------------------------------------------------------------ parallel TLC
def parallel(thunks, stagger=0.15, width=3):
    """Runs the TLC invocations `width` at a time (each is a JVM; most of their wall time is start-up)."""
    import threading, time
    res, errs = [None] * len(thunks), []
    sem = threading.Semaphore(width)

    def run(i, f):
        try:
            res[i] = f()
        except BaseException as e:      # re-raised in the caller's thread
            errs.append(e)
        finally:
            sem.release()

    ths = []
    for i, f in enumerate(thunks):
        sem.acquire()
        th = threading.Thread(target=run, args=(i, f))
        th.start()
        ths.append(th)
        time.sleep(stagger)             # ctx.tlc numbers its scratch directories without a lock
    for th in ths:
        th.join()
    if errs:
        raise errs[0]
    return res


# ------------------------------------------------------------------------------------------------ operation level
def ops_of(acts):
    """Actions of a TLC behaviour -> application-level operations (frame deliveries happen by themselves)."""
    out = []
    for a in acts:
        k = a.get("act")
        if k == "IngressOpen":
            out.append({"op": "open", "t": a["t"]})
        elif k == "IngressSend":
            out.append({"op": "send", "t": a["t"]})
        elif k == "TargetSend":
            out.append({"op": "rsend", "t": a["t"]})
        elif k == "IngressEnd":
            out.append({"op": "reset" if a.get("ty") == "RESET" else "close", "t": a["t"]})
        elif k == "TargetClose":
            out.append({"op": "tclose", "t": a["t"]})
        elif k == "LinkDown":
            out.append({"op": "disc", "a": a["a"], "p": a["p"]})
        elif k == "Recv" and a.get("res") == "exit-fail":
            # the failing dial is decided when the exit handles the OPEN: at operation level the port is closed up front
            for o in reversed(out):
                if o.get("t") == a["t"] and o["op"] == "open":
                    o["op"] = "failopen"
                    break
    return out


def tail_ops(ntun, ops):
    """Every tunnel is opened (if the history did not), exercised in both directions and closed by its ingress."""
    seen_open = {o["t"] for o in ops if o["op"] in ("open", "failopen")}
    ended = {o["t"] for o in ops if o["op"] in ("close", "reset", "tclose", "failopen")}
    out = list(ops)
    for t in range(1, ntun + 1):
        if t not in seen_open:
            out.append({"op": "open", "t": t})
    live = [t for t in range(1, ntun + 1) if t not in ended]
    for t in live:
        out += [{"op": "send", "t": t}, {"op": "rsend", "t": t}]
    for t in live:
        out += [{"op": "send", "t": t}]
    for t in live:
        out += [{"op": "close", "t": t}]
        out += [{"op": "send", "t": u} for u in live if u > t]
    return out


def scenario(name, topo, kind, ops, ntun=2, idle_ms=200, no_leak=False):
    k = "udp" if kind == "udp" else "tcp"
    return {"name": name, "topo": topo, "kind": kind, "kinds": {str(i + 1): k for i in range(ntun)}, "idle_ms": idle_ms,
            "no_leak": no_leak, "ops": ops}


# site names of the finding keys
def site_name(kind, site):
    if site == "relay":
        return "relay-table"
    if site == "ingress":
        return {"tcp": "ingress-stream-table", "forward": "ingress-stream-table", "udp": "udp-ingress-table",
                "icmp": "icmp-ingress-table"}[kind]
    return {"tcp": "exit-handler", "forward": "forward-handler", "udp": "udp-handler", "icmp": "icmp-handler"}[kind]


C16_KINDS = ("open", "starve", "bytes", "crossbytes", "crossclose", "lostclose")
C17_KINDS = ("leak",)


def report_scenarios(ctx, recs, kinds):
    """Failures of the operation-level oracle -> findings.  A failure on a tunnel (or, for leaks, at an agent) whose
    stream ids collide with another tunnel's at exactly one site is the known keying deviation of that site; every
    other failure is reported under its own key."""
    n = 0
    for rec in recs:
        for f in rec.get("fails") or []:
            if f["what"] not in kinds:
                continue
            n += 1
            sites = f.get("sites") or []
            if len(sites) == 1:
                key = "Relay:DevKeyedByStreamIdOnly:" + site_name(rec["kind"], sites[0])
            elif not sites and f["what"] == "leak" and (f.get("key") or "").startswith(("relay.udp", "relay.icmp")) \
                    and any(o["op"] == "disc" for o in rec.get("_ops", [])):
                key = "Relay:DevUdpIcmpRelayNotCleaned:" + f["key"].split(".")[1]
            else:
                key = "Relay:unexplained:%s:%s:%s%s" % (rec["kind"], f["what"], rec["topo"],
                                                        (":" + "+".join(sites)) if sites else "")
            ctx.finding(key, "%s scenario %s on %s: %s" % (rec["kind"], rec["name"], rec["topo"], f["detail"]),
                        {"scenario": rec["name"], "failure": f, "stream_ids": rec.get("sids")})
    return n


def report_icmp(ctx, sm, kinds):
    n = 0
    for f in sm.get("fails") or []:
        if f["what"] not in kinds:
            continue
        n += 1
        if f.get("site"):
            key = "Relay:DevKeyedByStreamIdOnly:" + site_name("icmp", f["site"])
        elif f["scenario"] == "icmp-disconnect" and f["what"] == "leak":
            key = "Relay:DevUdpIcmpRelayNotCleaned:icmp"
        else:
            key = "Relay:unexplained:icmp:%s:%s" % (f["what"], f["scenario"])
        ctx.finding(key, "icmp scenario %s: %s" % (f["scenario"], f["detail"]), f)
    return n


def report_replay(ctx, out, prefix="Relay:replay"):
    """Mismatches of the frame-level replay of the code-faithful relation are violations (nothing explains them)."""
    n = 0
    for name, o in out.items():
        for m in o["mismatches"]:
            if m.get("infra"):
                raise vf.Infra("relay replay %s: %s (path %s)" % (name, m["diff"], m.get("_path")))
            n += 1
            a = m["a"]
            field = m["diff"].split(":")[0].split("[")[0]
            ctx.finding("%s:%s:%s:%s:%s" % (prefix, name, a.get("act"), a.get("ty") or "", field),
                        "real agents leave Relay.tla at %s of %s: %s" % (a, name, m["diff"]), m)
    return n
