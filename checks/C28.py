# C28 - Signed-command mode rejects every unsigned or invalid sleep/wake command
#
# Statement: with a signing public key configured an agent changes its sleep state, or forwards a sleep or wake
# command, only for a command with a valid signature over (origin, id, timestamp) and a timestamp inside the validity
# window - on every path a command can arrive by (SLEEP_COMMAND frame, WAKE_COMMAND frame, command slot of a
# QUEUED_STATE frame).
#
# Interpretation (permissive side):
#  * "changes its sleep state / forwards" is judged on observable effects only: the agent's sleep state
#    (GetSleepState, sleep-manager OnSleep/OnWake transitions), the return value of the Flooder's handlers (which the
#    agent turns into a sleep-manager call) and the frames handed to the peer sender / written to other peers.  A
#    sleep-manager call that changes nothing and forwards nothing is not held against the code.
#  * the command kind is not part of the signed bytes: a validly signed triple delivered as the other kind is a
#    valid command for this property (that is what the statement says: signature over origin, identifier, timestamp).
#  * the window boundary is never probed: timestamps are at most W units (inside, with half a unit of slack in the
#    configured window) or at least W+1 units (outside) away from the agent's clock.
#  * without a signing key nothing is claimed; a disagreement between model and code in unsigned mode is reported as
#    an infrastructure error (exit 2), not as a verdict.
#  * findings of the shared SleepCmd pipeline that concern "acted on a valid command twice / genuine command
#    suppressed / cache maintenance" belong to C29 and are not reported here.
#  * configuration: the statement speaks of "an agent" with a signing key: the whole-agent replay runs with sleep mode
#    enabled AND disabled (a relay); with sleep mode disabled the only observable is forwarding (frames written to the
#    other peers) and the cache size.  The pending wake command a Flooder keeps for peers that connect later is part
#    of "what the agent forwards": storing a command there that failed verification is reported here.
import _sleepcmd as S


def run(ctx):
    S.check(ctx, "C28")
