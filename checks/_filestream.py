# FileStream.tla <-> the file-transfer stream protocol of internal/agent (growth module G05)
#
#   cfgs / mc_files      set-up records and the generated MC module (records cannot be written in a cfg file)
#   expected             projection of a specification state + action = what the Go harness observes after the step
#   make_doc / replay    edge cover of a relation -> paths for harness/agent/filestream_test.go (TestZZVFileStreamReplay)
#   classify             findings protocol: a difference to the IDEAL relation is looked up in the AS-BUILT relation,
#                        whose transitions carry the deviations that shaped them (field dev of the action record)
#   honest / trace       scenarios of the real initiator (TestZZVFileStreamHonest) as events for TraceFileStream.tla
import json, os
import vf, _replay as R

MODULE = "FileStream"
HFILES = ["common/common_test.go.tmpl", "agent/cmesh_test.go", "agent/filestream_test.go"]
UNIT = 8128          # bytes per unit: Chunk = 2 units = 16256 bytes = the read buffer of sendFileDownload / streamFileContent
MAX, CHUNK = 3, 2    # max_file_size = 3 units: a download of 3 units takes two frames, an upload of 4 units exceeds it

INVS = "TypeOK NoFsBeforeAuth WrittenIsSent NoPartialFile SizeLimit OneResult EntryOnce Agreement NoOrphan LocalIntact"
PROPS = "Frozen Isolation"
INVS_AS_BUILT = "TypeOK NoFsBeforeAuth WrittenIsSent"
AS_BUILT_R = ["DevPartialFileLeftOnAbort", "DevResultAsOpenErr", "DevEntryLeakOnPeerGone", "DevKeyedByStreamIdOnly"]
AS_BUILT_I = ["DevDownloadIgnoresRemoteError", "DevAbortNotSignalled", "DevDownloadTruncatesLocalFirst"]
AS_BUILT = AS_BUILT_R + AS_BUILT_I
DEVS = AS_BUILT + ["DevWriteBeforeAuth", "DevSizeLimitOnAnnouncedOnly", "DevEntryLeakOnReset"]
DEV_CAUGHT_BY = {"DevPartialFileLeftOnAbort": {"NoPartialFile", "SizeLimit"}, "DevResultAsOpenErr": {"OneResult"},
                 "DevEntryLeakOnPeerGone": {"EntryOnce"}, "DevKeyedByStreamIdOnly": {"EntryOnce", "Isolation"},
                 "DevDownloadIgnoresRemoteError": {"Agreement"}, "DevAbortNotSignalled": {"NoOrphan"},
                 "DevDownloadTruncatesLocalFirst": {"LocalIntact"}, "DevWriteBeforeAuth": {"NoFsBeforeAuth", "EntryOnce"},
                 "DevSizeLimitOnAnnouncedOnly": {"SizeLimit"}, "DevEntryLeakOnReset": {"EntryOnce"}}
SITE = {"DevPartialFileLeftOnAbort": "filetransfer.StreamHandler.WriteUploadedFile",
        "DevResultAsOpenErr": "Agent.completeFileUpload",
        "DevEntryLeakOnPeerGone": "Agent.handlePeerDisconnect",
        "DevKeyedByStreamIdOnly": "Agent.fileStreams",
        "DevDownloadIgnoresRemoteError": "Agent.DownloadFile",
        "DevAbortNotSignalled": "Agent.UploadFile",
        "DevDownloadTruncatesLocalFirst": "Agent.receiveAndWriteFile"}


def cfg_rec(kind, enabled=True, dest="na", fsize=0, honest=False, ldest="na"):
    if kind == "up" and dest == "na":
        dest = "absent"
    return {"kind": kind, "enabled": enabled, "dest": dest, "fsize": fsize, "honest": honest, "ldest": ldest}


def replay_cfgs(ctx):
    """set-ups of the puppet replay"""
    out = [cfg_rec("up", dest="old"), cfg_rec("up", dest="dir"), cfg_rec("up", enabled=False),
           cfg_rec("down", fsize=-1), cfg_rec("down", fsize=3), cfg_rec("down", fsize=4)]
    if not ctx.quick():
        out += [cfg_rec("up", dest="absent"), cfg_rec("down", fsize=0), cfg_rec("down", fsize=1), cfg_rec("down", fsize=2),
                cfg_rec("down", enabled=False, fsize=1)]
    return out


def honest_cfgs():
    """set-ups with the project's own initiator: model checking of the initiator's obligations (IReturn)"""
    return [cfg_rec("up", dest="old", honest=True), cfg_rec("up", dest="dir", honest=True),
            cfg_rec("down", fsize=3, honest=True, ldest="old"), cfg_rec("down", fsize=-1, honest=True, ldest="old")]


def consts(ctx):
    if ctx.quick():
        return {"Max": MAX, "Chunk": CHUNK, "MaxRecv": 4, "DataN": "{1, 2}", "FinN": "{0, 2}"}
    return {"Max": MAX, "Chunk": CHUNK, "MaxRecv": 6, "DataN": "{1, 2}", "FinN": "{0, 1, 2}"}


def tla_cfg(c):
    return '[kind |-> "%s", enabled |-> %s, dest |-> "%s", fsize |-> %d, honest |-> %s, ldest |-> "%s"]' % (
        c["kind"], "TRUE" if c["enabled"] else "FALSE", c["dest"], c["fsize"], "TRUE" if c["honest"] else "FALSE", c["ldest"])


def mc_files(cfgs, cs, dev=(), emit=True, invs=INVS, props=PROPS, trace=False):
    """-> (module, {file: text}) of a generated model: MCFileStream extends FileStream (or TraceFileStream)"""
    base = "TraceFileStream" if trace else MODULE
    mod = "MC" + base
    text = "---- MODULE %s ----\nEXTENDS %s\nMCCfgs == {\n %s\n}\n====\n" % (mod, base, ",\n ".join(tla_cfg(c) for c in cfgs))
    cfg = ["CONSTANTS"] + [" %s = %s" % kv for kv in cs.items()] + [
        " Cfgs <- MCCfgs", " Dev = {%s}" % ", ".join('"%s"' % d for d in dev), " Emit = %s" % ("TRUE" if emit else "FALSE")]
    if trace:
        cfg += ["INIT TraceInit", "NEXT TraceNext", "CONSTRAINT HighWater", "POSTCONDITION TraceAccepted"]
    else:
        cfg += ["INIT Init", "NEXT Next", "VIEW view", "ACTION_CONSTRAINT EmitEdge"]
    if invs:
        cfg.append("INVARIANTS " + invs)
    if props and not trace:
        cfg.append("PROPERTIES " + props)
    return mod, {mod + ".tla": text, "MC.cfg": "\n".join(cfg) + "\n"}


def tlc_many(ctx, jobs, par=5, timeout=1500):
    """jobs: dict(module, files, name, workers, heap, env) with generated files; several JVMs side by side (start-up dominates)"""
    import subprocess, shutil, glob, time
    from concurrent.futures import ThreadPoolExecutor

    def one(job):
        d = ctx.scratch("tlcfs_" + job["name"])
        for f in glob.glob(os.path.join(vf.SPEC, "*")):
            if os.path.isfile(f):
                shutil.copy(f, d)
        for fn, text in job["files"].items():
            with open(os.path.join(d, fn), "w") as f:
                f.write(text)
        cmd = ["java", "-XX:+UseParallelGC", "-Xss64m", "-Xmx%s" % job.get("heap", "3g"), "-cp", vf.TLA_CP, "tlc2.TLC",
               "-config", "MC.cfg", "-metadir", os.path.join(d, "states"), "-workers", str(job.get("workers", 1)),
               "-noGenerateSpecTE", "-deadlock", job["module"] + ".tla"]
        e = dict(os.environ)
        e.pop("JAVA_TOOL_OPTIONS", None)
        e.update({k: str(v) for k, v in (job.get("env") or {}).items()})
        t = time.time()
        try:
            p = subprocess.run(cmd, cwd=d, env=e, stdout=subprocess.PIPE, stderr=subprocess.STDOUT, timeout=timeout, text=True,
                               errors="replace")
        except subprocess.TimeoutExpired:
            raise vf.Infra("TLC timeout on %s/%s" % (job["module"], job["name"]))
        res = vf.TLCResult()
        res.rc, res.out, res.wall = p.returncode, p.stdout, time.time() - t
        vf.parse_tlc_output(p.stdout, res, tags=("EDGE", "HW", "LEN"))
        bad = None
        for pat in ("Parsing or semantic analysis failed", "java.lang.OutOfMemoryError", "StackOverflowError",
                    "TLC threw an unexpected exception", "Error: TLC encountered", "was not found", "Error: Evaluating",
                    "Error: The configuration file", "Error: In evaluation", "Error: Attempted to", "Error: The invariant",
                    "Error: TLC was unable", "Unknown operator", "Error: Parsing"):
            if pat in p.stdout:
                bad = pat
                break
        unfinished = not res.ok and res.violated is None
        if (bad and res.violated is None) or unfinished:
            ctx._keep_log(d, p.stdout, job["name"])
            raise vf.Infra("TLC failure (%s) on %s/%s:\n%s" % (bad or "did not finish", job["module"], job["name"],
                                                             "\n".join(p.stdout.splitlines()[-40:])))
        ctx.log("TLC %s/%s: %d generated, %d distinct, %d edges, %.1fs%s" % (
            job["module"], job["name"], res.generated, res.distinct, len(res.edges), res.wall,
            (" VIOLATED " + str(res.violated)) if res.violated else ""))
        return res

    with ThreadPoolExecutor(max_workers=max(1, min(len(jobs), par))) as ex:
        return list(ex.map(one, jobs))


# ---------------------------------------------------------------------------------------------- projection
def fmt_final(f):
    if f["st"] in ("new", "trunc"):
        return "%s:%d" % (f["st"], f["n"])
    return f["st"]


def expected(t, a):
    """what the harness observes after the step that led to state t by action a"""
    up = t["cfg"]["kind"] == "up"
    tmp, orphan = t["tmp"], t["orphan"]
    if tmp < 0 and orphan < 0:
        ts = "none"
    elif tmp >= 0 and orphan >= 0:
        ts = "2files:%d" % (tmp + orphan)
    else:
        ts = "%d" % max(tmp, orphan)
    return {"reply": list(a.get("reply", [])), "xreply": list(a.get("xreply", [])),
            "final": fmt_final(t["final"]) if up else "na", "outside": "absent" if up else "na", "tmp": ts,
            "table": (0 if t["owner"] == "none" else 1) + t["xentry"]}


def harness_cfg(c):
    return {"kind": c["kind"], "enabled": c["enabled"], "dest": c["dest"], "fsize": c["fsize"]}


def base_act(a):
    return {"act": a.get("act"), "cls": a.get("cls", ""), "n": a.get("n", 0)}


def wire_act(a):
    """the action as the harness needs it"""
    return {k: v for k, v in base_act(a).items() if not (k == "cls" and v == "") and not (k == "n" and a.get("act") not in ("Data", "Fin"))}


def is_init(s):
    return s["rph"] == "Idle" and s["opens"] == 0 and s["palive"] and not s["xopened"]


def make_doc(edges, max_len=40):
    """edge cover of the transitions of the adversarial (puppet) set-ups"""
    es = [e for e in edges if not e["s"]["cfg"]["honest"]]
    paths, nnodes, nedges = R.cover(es, is_init, max_len=max_len)
    out = []
    for p in paths:
        steps, s = [], p["init"]
        for st in p["steps"]:
            steps.append({"a": wire_act(st["a"]), "e": expected(st["t"], st["a"]), "_s": s, "_a": st["a"], "_t": st["t"]})
            s = st["t"]
        out.append({"cfg": harness_cfg(p["init"]["cfg"]), "steps": steps})
    return out, nnodes, nedges


def strip(paths):
    return [{"cfg": p["cfg"], "steps": [{"a": s["a"], "e": s["e"]} for s in p["steps"]]} for p in paths]


def replay(ctx, binpath, sets, nproc=4, corrupt=""):
    """sets: [(tag, paths)] -> {tag: {"paths","steps","mismatches":[...], "acts"}}; the paths of all sets are spread over
    nproc processes of the test binary (each builds its own mesh)"""
    from concurrent.futures import ThreadPoolExecutor
    work = []
    for tag, paths in sets:
        for i, p in enumerate(paths):
            work.append((tag, i, p))
    # longest first, round robin
    work.sort(key=lambda w: -len(w[2]["steps"]))
    nproc = max(1, min(nproc, len(work)))
    parts = [work[k::nproc] for k in range(nproc)]

    def one(k):
        fn = os.path.join(ctx.work, "fsreplay_%d.json" % k)
        vf.write_json(fn, {"unit": UNIT, "max_units": MAX, "paths": strip([w[2] for w in parts[k]])})
        env = {"ZZV_IN": fn}
        if corrupt:
            env["ZZV_CORRUPT"] = corrupt
        return R.run_test_binary(ctx, binpath, "^TestZZVFileStreamReplay$", env=env, timeout=1200, quiet=True)

    with ThreadPoolExecutor(max_workers=nproc) as ex:
        results = list(ex.map(one, range(nproc)))
    out = {tag: {"paths": 0, "steps": 0, "mismatches": [], "acts": {}} for tag, _ in sets}
    for k, r in enumerate(results):
        s = r.of("summary")
        if r.rc != 0 or not s:
            raise vf.Infra("file-stream replay harness failed rc=%s:\n%s" % (r.rc, "\n".join(r.out.splitlines()[-40:])))
        if s[0]["paths"] != len(parts[k]):
            raise vf.Infra("file-stream replay executed %d of %d paths" % (s[0]["paths"], len(parts[k])))
        for mm in r.of("mismatch"):
            tag, i, p = parts[k][mm["path"]]
            st = p["steps"][mm["step"]]
            mm.update({"set": tag, "s": st["_s"], "spec_a": st["_a"], "spec_t": st["_t"]})
            out[tag]["mismatches"].append(mm)
        for tag, i, p in parts[k]:
            out[tag]["paths"] += 1
    # executed steps per set: all steps of a path without mismatch, the steps up to the mismatch otherwise
    cut = {}
    for k, r in enumerate(results):
        for mm in r.of("mismatch"):
            tag, i, p = parts[k][mm["path"]]
            cut[(tag, id(p))] = mm["step"] + 1
    for tag, paths in sets:
        for p in paths:
            n = cut.get((tag, id(p)), len(p["steps"]))
            out[tag]["steps"] += n
            for st in p["steps"][:n]:
                out[tag]["acts"][st["a"]["act"]] = out[tag]["acts"].get(st["a"]["act"], 0) + 1
    ctx.log("file-stream replay: %d processes, %s, %.1fs" % (
        nproc, ", ".join("%s: %d paths %d steps %d mismatches" % (t, o["paths"], o["steps"], len(o["mismatches"]))
                         for t, o in out.items()), max(r.wall for r in results)))
    return out


def classify(mm, built_ix):
    """-> sorted list of the deviations that explain a difference to the ideal relation ([] = unexplained): the as-built
    relation has, from the same state and for the same frame, a transition with exactly the observed projection"""
    key = (vf.canon(mm["s"]), vf.canon(base_act(mm["spec_a"])))
    real = vf.canon(mm["real"])
    for e in built_ix.get(key, []):
        if vf.canon(expected(e["t"], e["a"])) == real and e["a"].get("dev"):
            return sorted(e["a"]["dev"])
    return []


def describe(mm):
    hist = " ".join(compact(a) for a in mm.get("history", []))
    c = mm.get("cfg", {})
    return ("%s transfer (enabled=%s dest=%s fsize=%s), frames [%s]: after the last step the specification has %s, the real "
            "responder %s" % (c.get("kind"), c.get("enabled"), c.get("dest"), c.get("fsize"), hist, vf.canon(mm.get("spec")),
                              vf.canon(mm.get("real"))))


def compact(a):
    s = a.get("act", "?")
    if a.get("cls"):
        s += "(%s)" % a["cls"]
    elif a.get("act") in ("Data", "Fin"):
        s += "(%d)" % a.get("n", 0)
    return s


# ---------------------------------------------------------------------------------------------- honest initiator
B = CHUNK * UNIT


def scen(name, op, nbytes, cls="valid", **kw):
    d = {"name": name, "op": op, "bytes": nbytes, "cls": cls}
    d.update(kw)
    return d


def honest_scens(ctx):
    out = [
        scen("up-0", "upload", 0), scen("up-chunk", "upload", B), scen("up-chunk+1", "upload", B + 1),
        scen("up-max", "upload", MAX * UNIT, pre=True),
        scen("up-badpw", "upload", 100, "badpw", pre=True), scen("up-denied", "upload", 100, "denied"),
        scen("up-toolarge", "upload", (MAX + 1) * UNIT, "toolarge", pre=True),
        scen("up-isdir", "upload", 100, "isdir", waitms=2500), scen("up-disabled", "upload", 100, resp="D"),
        scen("up-abort", "upload", MAX * UNIT, rate=3000, abort=500),
        scen("dl-0", "download", 0), scen("dl-chunk", "download", B), scen("dl-chunk+1", "download", B + 1),
        scen("dl-max", "download", MAX * UNIT, pre=True),
        scen("dl-badpw", "download", 100, "badpw", pre=True), scen("dl-denied", "download", 100, "denied"),
        scen("dl-missing", "download", 100, "missing", pre=True), scen("dl-toolarge", "download", (MAX + 1) * UNIT, "toolarge"),
        scen("dl-disabled", "download", 100, resp="D"),
        scen("dls-chunk+1", "dlstream", B + 1), scen("dls-badpw", "dlstream", 100, "badpw"),
        scen("dl-abort", "download", MAX * UNIT, rate=3000, abort=500, pre=True),
    ]
    if not ctx.quick():
        out += [scen("up-1", "upload", 1), scen("up-chunk-1", "upload", B - 1), scen("up-unit", "upload", UNIT),
                scen("dl-1", "download", 1), scen("dl-chunk-1", "download", B - 1), scen("dl-unit", "download", UNIT),
                scen("dls-0", "dlstream", 0), scen("dls-max", "dlstream", MAX * UNIT), scen("dls-missing", "dlstream", 10, "missing"),
                scen("up-disabled-pre", "upload", 100, resp="D", pre=True), scen("dl-abort-nopre", "download", MAX * UNIT, rate=3000, abort=500)]
    return out


def units(nbytes):
    return (nbytes + UNIT - 1) // UNIT


def scen_cfg(sc):
    """the specification set-up of an honest scenario"""
    up = sc["op"] == "upload"
    enabled = sc.get("resp", "R") != "D"
    if up:
        dest = "dir" if sc["cls"] == "isdir" else ("old" if sc.get("pre") else "absent")
        return cfg_rec("up", enabled=enabled, dest=dest, honest=True)
    fsize = -1 if sc["cls"] == "missing" else units(sc["bytes"])
    ldest = "na" if sc["op"] == "dlstream" else ("old" if sc.get("pre") else "absent")
    c = cfg_rec("down", enabled=enabled, fsize=fsize, honest=True, ldest=ldest)
    return c


def reply_class(frames):
    """frames of the responder between two frames of the initiator -> class compared with the specification's reply"""
    if not frames:
        return "none"
    names = [f["ev"] for f in frames]
    if names == ["Ack"]:
        return "ack"
    if names[0] == "ErrMeta" and names[-1] == "RClose" and len(names) == 2:
        return "rejected:" + frames[0].get("cls", "?")
    if names[0] == "OpenErr" and len(names) == 1:
        return "operr:" + frames[0].get("cls", "?")
    if names == ["RClose"]:
        return "closed"
    if names[0] == "RespMeta" and names[-1] == "RClose" and all(n == "RData" for n in names[1:-1]):
        return "served"
    return "other:" + "+".join(names)


def trace_of(rec):
    """one recorded scenario -> list of events for TraceFileStream.tla.  Consecutive data frames of the initiator are one
    Data event (the honest initiator sends the gzip stream in small frames; the specification counts units of the file)."""
    sc = rec["sc"]
    cfg = scen_cfg(sc)
    up = cfg["kind"] == "up"
    evs = [{"ev": "Start", "cfg": cfg, "name": sc["name"]}]
    cur = None      # the initiator event whose replies are being collected
    replies = []
    total = units(sc["bytes"])
    aborted = sc.get("abort", 0) > 0

    def flush():
        nonlocal cur, replies
        if cur is not None:
            cur["rc"] = reply_class(replies)
            evs.append(cur)
        cur, replies = None, []

    # The log is in WRITE order.  The responder handles the frames of a connection one after the other, so the frames of
    # one synchronous reaction (sealed error record, then STREAM_CLOSE) are contiguous in ITS order even when a frame of the
    # initiator was written in between (the initiator closes as soon as it has read the error record - on a loaded machine
    # before the responder got to write its STREAM_CLOSE): such a Close / Reset is moved behind the reaction it crossed.
    held = None
    for f in rec["events"]:
        e = f["ev"]
        if e in ("Ack", "ErrMeta", "OpenErr", "RClose", "RespMeta", "RData"):
            replies.append(f)
            if held is not None and e == "RClose":
                flush()
                cur, held = held, None
            continue
        if e in ("Close", "Reset") and held is None and cur is not None and replies and replies[-1]["ev"] == "ErrMeta":
            held = {"ev": e}
            continue
        if e == "Undecryptable":
            flush()
            evs.append({"ev": "Unknown", "what": "undecryptable frame on the responder's link", "rc": "none"})
            continue
        if e == "Data" and cur is not None and cur["ev"] == "Data" and not replies:
            continue        # merged into the running Data event
        flush()
        if e == "Open":
            cur = {"ev": "Open"}
        elif e == "Meta":
            cls = sc["cls"] if sc["cls"] in ("valid", "badpw", "denied", "toolarge") else "valid"
            if not up and cls == "toolarge":
                cls = "valid"       # downloads: the size on the responder's disk decides
            cur = {"ev": "Meta", "cls": "malformed" if f.get("cls") == "malformed" else cls}
        elif e == "Data":
            n = total if not aborted else 1
            cur = {"ev": "Data", "n": max(1, min(n, MAX + 1))}
        elif e == "Fin":
            cur = {"ev": "Fin", "n": 0}
        elif e in ("Close", "Reset"):
            cur = {"ev": e}
        else:
            cur = {"ev": "Unknown", "what": e}
    flush()
    if held is not None:
        held["rc"] = "none"
        evs.append(held)
    dst = rec["dst"]
    if up:
        dst_l = "na"
    elif sc["op"] == "dlstream":
        dst_l = "na" if rec["result"] == "err" else dst
    else:
        dst_l = dst
    evs.append({"ev": "IReturn", "res": rec["result"], "dst": dst_l, "table": rec["table"], "tmp": 0 if rec["tmp"] == "none" else 1,
                "istream": 1 if rec["istreams"] > 0 else 0, "rdst": dst if up else "na"})
    return evs


def run_honest(ctx, binpath, scens):
    fn = os.path.join(ctx.work, "fshonest.json")
    vf.write_json(fn, {"unit": UNIT, "max_units": MAX, "scens": scens})
    r = R.run_test_binary(ctx, binpath, "^TestZZVFileStreamHonest$", env={"ZZV_IN": fn}, timeout=1200)
    recs = r.of("scenario")
    if r.rc != 0 or len(recs) != len(scens):
        raise vf.Infra("honest-initiator harness failed rc=%s (%d of %d scenarios):\n%s" % (
            r.rc, len(recs), len(scens), "\n".join(r.out.splitlines()[-40:])))
    return recs


def validate_jobs(ctx, traces, cs, devsets):
    """one TLC job per deviation set: all traces concatenated (Start events reset the state)"""
    fn = os.path.join(ctx.work, "fstrace.ndjson")
    evs = [e for t in traces for e in t]
    vf.write_ndjson(fn, evs)
    cfgs = []
    for t in traces:
        if t[0]["cfg"] not in cfgs:
            cfgs.append(t[0]["cfg"])
    jobs = []
    for name, dev in devsets:
        mod, files = mc_files(cfgs, cs, dev=dev, emit=False, invs="TypeOK", props="", trace=True)
        jobs.append(dict(module=mod, files=files, name="trace-" + name, workers=1, env={"TRACE_FILE": fn}))
    return jobs, evs


def trace_result(res, evs):
    hw = [o for t, o in res.prints if t == "HW"]
    ln = [o for t, o in res.prints if t == "LEN"]
    if res.violated and res.violated != "postcondition":
        return {"accepted": False, "violated": res.violated, "hw": hw[-1] if hw else None, "event": None, "scenario": None}
    if not hw or not ln:
        raise vf.Infra("trace validation did not reach its postcondition:\n" + "\n".join(res.out.splitlines()[-30:]))
    h, n = hw[-1], ln[-1]
    ok = h == n + 1
    ev, name = None, None
    if not ok and 0 < h <= len(evs):
        ev = evs[h - 1]
        for e in evs[:h]:
            if e["ev"] == "Start":
                name = e["name"]
    return {"accepted": ok, "violated": None if ok else "rejected", "hw": h, "event": ev, "scenario": name}


def confirm(ctx, binpath, mms, sets, corrupt=""):
    """re-run the paths of the given mismatches once in a fresh process: only differences that show again are reported
    (a frame that arrives late on the loaded machine must never become a verdict)"""
    if not mms:
        return []
    bypath = {}
    for tag, paths in sets:
        for p in paths:
            bypath[(tag, id(p))] = p
    again = []
    todo = {}
    for mm in mms:
        todo.setdefault(mm["set"], []).append(mm)
    resets = []
    for tag, paths in sets:
        sel = []
        for mm in todo.get(tag, []):
            for p in paths:
                if [s["a"] for s in p["steps"]][:len(mm["history"])] == mm["history"] and p["cfg"] == mm["cfg"]:
                    sel.append(p)
                    break
        if sel:
            resets.append((tag, sel))
    if not resets:
        return list(mms)
    rep2 = replay(ctx, binpath, resets, nproc=2, corrupt=corrupt)
    for mm in mms:
        for m2 in rep2[mm["set"]]["mismatches"]:
            if m2["history"] == mm["history"] and m2["cfg"] == mm["cfg"]:
                again.append(mm)
                break
    ctx.log("file-stream replay: %d of %d unexplained differences showed again" % (len(again), len(mms)))
    return again
