# C32 - One live connection per peer, and stale teardown never harms the live one
#
# Interpretation (permissive side):
#  * "registered connection" = the entry of peer.Manager.peers for the identity; "at most one" is structural in a map,
#    so the check also demands that registering a second connection never replaces a live registered one.
#  * "a rejected duplicate never delivers frames": frames released on the link of a connection that
#    registerConnection rejected (or that was closed) must not reach Agent.processFrame.
#  * "tearing down a connection that is no longer the registered one": handleDisconnect (+ the agent's disconnect
#    callback) running for connection c while ANOTHER connection of the same identity is registered.  It must not
#    change that registration, nor remove routes through that identity or relay entries with that identity.
#    A teardown that runs while NO connection is registered may clean up by identity (nothing belongs to a current
#    connection then); handleDisconnect + callback are treated as one step (see assumptions).
#  * Differences between spec and code that are not such a loss / delivery (handshake bookkeeping, frames in flight,
#    parked threads) are reported as an infrastructure problem, not as a violation.
import vf, _peerreg as R


def run(ctx):
    mdl = R.model(ctx)
    rp = R.replay(ctx, mdl)
    nfind = R.report(ctx, mdl, rp)
    tot = rp["total"]
    if not nfind and tot["diverged"]:
        div = [m for m in rp["mismatches"] if m.get("class") == "diverged"]
        import os
        os.makedirs(os.path.join(vf.VERIF, "out", "logs"), exist_ok=True)
        vf.write_json(os.path.join(vf.VERIF, "out", "logs", "%s-divergences.json" % ctx.pid), div[:20])
        raise vf.Infra("the code does not follow PeerReg.tla in %d replayed paths although no forbidden loss / delivery "
                       "was observed, e.g. step %s fields %s after %s" % (
                           tot["diverged"], div[0].get("a"), div[0].get("fields"),
                           [p.get("act") for p in div[0].get("prefix", [])]))
    ideals, bigs = mdl["ideals"], mdl["r_bigs"]
    mid = rp["paths"][len(rp["paths"]) // 2]
    ctx.evidence("model_checking",
                 assumptions=["two agents, 2 connection generations; instances as (MaxLink, MaxAnn, MaxApi, MaxRelay, KaOf, MaxKa, "
                              "SplitRegister, ApiOf): checked exhaustively %s; every transition replayed on real agents: %s "
                              "(keepalive failures) and %s (Manager.Disconnect = unregister without callback)"
                              % (mdl["bigs"], mdl["small"], mdl["apiinst"]),
                              "handleDisconnect and the agent's disconnect callback are one step (a registration completing "
                              "between the slot update and the callback would need a whole handshake inside that window)",
                              "closing a link is seen by the read loops of both ends at once (in-memory links; half-open "
                              "connections are not modelled); a read loop always ends in a teardown",
                              "a's real keepaliveLoop runs (25 ms interval); its failure path is reached by letting a keepalive "
                              "write that the harness holds inside the transport return an error; the timeout branch "
                              "(unreachable while writes succeed) is not exercised",
                              "RegCheck/RegInsert interleavings are model-checked and provoked on the code by the race driver "
                              "(lockstep at the manager mutex + free-running), not replayed step by step",
                              "Manager.Disconnect(id) stands for DisconnectAll as well (same mechanism: slot cleared, connection "
                              "closed, no callback)"],
                 states=sum(r.distinct for r in bigs + ideals), transitions=sum(r.generated for r in bigs + ideals),
                 replayed_states=sum(r.distinct for r in ideals), replayed_transitions=rp["edges"],
                 traces_validated_against_impl=tot["paths"] + len(rp["scenarios"]),
                 exhaustive=True,
                 replayed_paths=tot["paths"], replayed_steps=tot["steps"],
                 replay_violations=tot["viol"], replay_divergences=tot["diverged"],
                 deviation_scenarios=[{"name": s["name"], "oracle": s["oracle"], "skipped_steps": s["skipped"]} for s in rp["scenarios"]],
                 deviations_caught=mdl["caught"],
                 race_lockstep_rounds=rp["race"]["lockstep"], race_lockstep_aligned=rp["race"]["aligned"],
                 race_free_rounds=rp["race"]["free"], race_outcomes=rp["race"]["outcomes"],
                 race_violations=len(rp["race"]["violations"] or []),
                 samples=[{"replay_path": [s["a"] for s in mid["steps"]]},
                          {"deviation_scenario": mdl["seeds"][0]}])
