# C10 - Route table maintenance follows the update, loop and cleanup rules
#
# Interpretation (permissive side):
#  * "a stored route from an origin" is one slot of a table as the code keys it: (network, origin), (pattern
#    case-folded, origin), (forward key, origin) and, in the agent-presence table, (agent, origin, next hop) - a
#    route to the same agent through another neighbour is another route, not a replacement.  "Replaced" = the slot is
#    occupied before and after one operation with different content; withdraw-then-add is not a replacement.
#  * a rejected advertisement leaves the table untouched, in particular it does not refresh the entry's age.
#  * "routes learned through that peer" = entries whose next hop is the peer; a disconnect is four critical sections
#    (one per table), each compared separately.
#  * staleness: an entry is stale when it was last added/replaced more than maxAge ago.  The harness never depends on
#    the clock: it rewinds LastUpdate by two hours ("AgeAll") and calls CleanupStale*(1h).
#  * cleanup exactness (every stale foreign route goes, also one that sits behind a fresh lower-metric route of the same
#    key; nothing else goes) is decided here, not by C08: a stale route that survives is still "stored", so C08's
#    lookup statement is not broken by it.  The check refuses to run (exit 2) if that case is missing from the replayed
#    model of any of the four tables.
#  * sequences are compared as plain unsigned 64-bit numbers; the harness maps the abstract sequences order-preservingly
#    into {0,1,2, 2^63-1, 2^63, 2^63+1, 2^64-2, 2^64-1} so that differences above 2^63 occur inside one table.
#  * "locally originated" = origin is the local agent (Manager.AddLocal*/AddDynamicRoute).
#  * the spec follows the code for everything the statement leaves open (result values, manager-local maps, which of
#    several equal-metric agent routes RemoveRoute drops: any of them); a disagreement there is reported as a C10
#    finding only because table content then differs from the modelled maintenance behaviour.
import vf, _routetable as R


def run(ctx):
    cfgs = ["cidr-mt", "dom-mt", "fwd-mt", "agt-mt", "cidr-loc", "fwd-loc"] if ctx.quick() else \
           ["cidr-mtT", "dom-mtT", "fwd-mtT", "agt-mtT", "agt-lk", "cidr-loc", "cidr-locT", "dom-loc", "fwd-loc"]
    results, caught = R.model_and_sensitivity(ctx, "C10", cfgs)
    behind = R.cleanup_behind_fresh_head(results)
    if behind != {"cidr", "dom", "fwd", "agt"}:
        raise vf.Infra("the replayed model lacks the case 'Cleanup removes a stale route behind a fresh head of the same "
                       "key' for %s" % sorted({"cidr", "dom", "fwd", "agt"} - behind))
    summ, mism, lkmism, tot = R.replay(ctx, results)
    foreign = R.report_replay(ctx, "C10", mism, lkmism)
    ntr, nops, chunks = (60, 250) + (1,) if ctx.quick() else (20, 1000) + (8,)
    tsum, v = R.traces(ctx, "C10", ["cidr", "dom", "fwd", "agt"], ntr, nops, "c10trace", chunks)
    foreign += R.report_trace(ctx, "C10", v)
    ctx.evidence("model_checking",
                 assumptions=["one operation at a time (every table operation is one critical section under the table's "
                              "lock; the manager's local maps are updated under the manager's lock before the table call)",
                              "time is abstracted to fresh/stale; the harness sets LastUpdate instead of waiting",
                              "bounded model per table: 1-2 keys, origins {a, p} (+ the local agent), next hops {p, q}, "
                              "advertised metrics 0..1, sequences 0..1 (local counter up to 3), paths clean / through the "
                              "local agent / absent, <= 2 entries; traces: all four tables in one manager, 7 origins, "
                              "3 next hops, sequences 0..4 (offset near 2^64 in half of the traces)"],
                 states=sum(r.distinct for r in results.values()), transitions=tot["edges"],
                 traces_validated_against_impl=sum(s["walks"] for s in summ.values()) + tsum["validated_traces"],
                 exhaustive=all(s["uncovered"] == 0 for s in summ.values()), cfgs={n: {"states": r.distinct, "transitions": r.generated - 1} for n, r in results.items()},
                 replay={n: {k: s[k] for k in ("groups", "uncovered", "edges", "edges_exhibited", "steps", "walks",
                                                "mismatches", "lkmismatches", "lookups")} for n, s in summ.items()},
                 nondeterministic_pairs=tot["nondet_groups"],
                 trace_events=tsum["events"], trace_events_matched=tsum["highwater_total"], trace_event_counts=tsum["counts"],
                 cleanup_behind_fresh_head_replayed=sorted(behind), deviations_caught=caught, findings_of_sibling_properties_seen=foreign,
                 samples=[{"replay_walk": summ[cfgs[0]]["sample"]}, {"trace_events": tsum["sample"]}])
