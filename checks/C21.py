# C21 - SOCKS5 never serves an unauthenticated client when authentication is enabled
#
# Interpretation (permissive side):
#  * "executed" = the handler reached the mesh: Dialer.DialContext (CONNECT), UDPAssociationHandler.CreateUDPAssociation
#    (UDP ASSOCIATE) or ICMPHandler.CreateICMPSession (ICMP) was called.  Replies, method selection and error codes
#    are compared with the specification too, but a difference there that does not execute anything for an
#    unauthenticated client is "specification drift" (exit 2), never a violation of C21.
#  * "credentials matching a configured user" = name and password equal to a configured user that has a password or a
#    password hash (ground truth computed by the harness from the bytes it sent, not from the server's opinion).  A
#    user shadowed by the hashed store (plaintext user next to hashed users) counts as matching: refusing it is fail
#    closed and allowed.  Valid HTTP basic credentials on the WebSocket upgrade also count as presenting credentials.
#  * user lists: none / one user without usable password / plaintext / bcrypt / plaintext + unusable / hashed + plaintext.
#  * the server is long-lived: several connections follow each other on one running handler (scope hs-session), and
#    whatever it remembers from an earlier, legitimate login must not admit a later client; credentials tried include
#    the valid name / password bytes split at a different boundary, and every string literal of the implementation's
#    source (as unknown-user password, known-user password, name and password).
import vf, _socks5 as S

DEVS = {"DevEmptyListDefaultsToNoAuth": "ExecRequiresAuth", "DevEmptyPasswordMatches": "ExecRequiresAuth",
        "DevUnknownUserDummyPassword": "ExecRequiresAuth"}
SESSION_DEVS = {"DevCredentialCacheCollision": "ExecRequiresAuth"}
SITE = {"DevEmptyListDefaultsToNoAuth": "agent.buildSOCKS5Auth+socks5.NewHandler",
        "DevEmptyPasswordMatches": "agent.buildSOCKS5Auth",
        "DevCredentialCacheCollision": "socks5.CredentialStore", "DevUnknownUserDummyPassword": "socks5.CredentialStore"}


def judge(ctx, variant, mism, panics, devrel):
    """Findings only from the property oracle evaluated on the real run (executed without matching credentials while
    authentication is on).  The deviation named in the key is the one whose scenario the real code followed."""
    drift = []
    for mm in mism:
        if mm.get("violation"):
            c = mm["cfg"]
            toks = [t["tok"] for t in mm.get("trace", [])]
            tr = mm.get("trace", [])
            dev = mm.get("attack") or S.explain(
                devrel, lambda st: S.is_init(st, c), toks,
                lambda e, i: list(e["a"]["rep"]) == list(tr[i].get("rep") or []) and
                e["a"]["ex"] == ",".join(x.split(":", 1)[0] for x in (tr[i].get("ex") or [])))
            key = "Socks5:%s:%s" % (dev or "unexplained", SITE.get(dev, "users=%s" % c["users"]))
            ctx.finding(key, "SOCKS5 (%s) auth enabled, users=%s: executed %s for a client that never presented "
                             "credentials matching a configured user; client program %s; server replies %s" % (
                                 variant, c["users"], mm.get("executed"), vf.canon(toks),
                                 [t.get("rep") for t in mm.get("trace", [])]), mm)
        else:
            drift.append(mm)
    for p in panics:
        ctx.finding("Socks5:panic", "SOCKS5 handler panicked: %s" % p.get("panic"), p)
    return drift


def run(ctx):
    scope = "hs-quick" if ctx.quick() else "hs-thorough"
    ideal, caught, devrel = S.model(ctx, scope, S.HS_INVS, DEVS)
    paths, total, nedges, complete = S.all_programs(ideal.edges, cap=None if ctx.quick() else 100000, rng=ctx.rng)
    attacks = S.attack_paths(devrel, cap=None if ctx.quick() else 60000, rng=ctx.rng)
    programs = S.hs_programs(paths, attacks)
    summ, mism, panics = S.hs_replay(ctx, "pipe", programs, "c21pipe", dictionary="socks5" if ctx.quick() else "all")
    drift = judge(ctx, "pipe", mism, panics, devrel)
    # several connections, one after the other, on one running handler
    sscope = "hs-session" if ctx.quick() else "hs-session3"
    sideal, scaught, srel = S.model(ctx, sscope, S.HS_INVS, SESSION_DEVS)
    spaths, stotal, sedges, scomplete = S.all_programs(sideal.edges, cap=None if ctx.quick() else 60000, rng=ctx.rng)
    sprogs = S.hs_programs(spaths, S.attack_paths(srel, cap=None if ctx.quick() else 30000, rng=ctx.rng))
    ssumm, smism, spanics = S.hs_replay(ctx, "pipe", sprogs, "c21session")
    drift += judge(ctx, "pipe-session", smism, spanics, srel)
    caught.update(scaught)
    replayed = summ["programs"] + ssumm["programs"]
    steps = summ["steps"] + ssumm["steps"]
    extra = {}
    if not ctx.quick():
        # the same server construction behind real TCP and behind the WebSocket listener
        idx = range(len(programs)) if len(programs) <= 6000 else sorted(ctx.rng.sample(range(len(programs)), 6000))
        sample = [dict(programs[i], id=n) for n, i in enumerate(idx)]
        st, mt, pt = S.hs_replay(ctx, "tcp", sample, "c21tcp")
        drift += judge(ctx, "tcp", mt, pt, devrel)
        # (behind the WebSocket listener the HTTP basic check already refuses everybody when no user is usable, so the
        # deviations are not observable there: no sensitivity run for this scope)
        wsideal, wscaught, wsrel = S.model(ctx, "ws", S.HS_INVS, {})
        wpaths, wtotal, wedges, _ = S.all_programs(wsideal.edges)
        wprogs = S.hs_programs(wpaths, S.attack_paths(wsrel))
        sw, mw, pw = S.hs_replay(ctx, "ws", wprogs, "c21ws")
        drift += judge(ctx, "ws", mw, pw, wsrel)
        replayed += st["programs"] + sw["programs"]
        steps += st["steps"] + sw["steps"]
        extra = {"tcp_programs": st["programs"], "ws_programs": sw["programs"], "ws_states": wsideal.distinct,
                 "ws_transitions": wedges, "ws_executed": sw["executed"], "tcp_executed": st["executed"]}
    # code -> spec: random programs, validated by TLC
    ntr = 120 if ctx.quick() else 3000
    tsum, tr, v = S.trace_check(ctx, "TestZZVSocks5AuthTrace", "agent", [S.COMMON, "agent/socks5auth_test.go"],
                                {"ZZV_TRACES": ntr}, "c21trace")
    for x in tr.of("violation"):
        ctx.finding("Socks5:trace:users=%s" % x["cfg"]["users"],
                    "random program: SOCKS5 auth enabled (users %s) executed %s without matching credentials" % (
                        x.get("users"), x.get("executed")), x)
    for p in tr.of("panic"):
        ctx.finding("Socks5:panic", "SOCKS5 handler panicked: %s" % p.get("panic"), p)
    fuzz = None
    if not ctx.quick():
        fr = ctx.gotest("agent", [S.COMMON, "agent/socks5auth_test.go"], "^TestZZVSocks5AuthFuzz$", env={"ZZV_N": 12000},
                        timeout=1200)
        fuzz = (fr.of("summary") or [None])[0]
        if not fuzz:
            raise vf.Infra("fuzz harness produced no summary")
        for x in fr.of("violation"):
            ctx.finding("Socks5:fuzz:users=%s" % x["cfg"]["users"],
                        "byte stream %s: executed %s with auth enabled and no matching credentials" % (
                            x.get("bytes"), x.get("executed")), x)
        for p in fr.of("panic"):
            ctx.finding("Socks5:panic", "SOCKS5 handler panicked on %s: %s" % (p.get("bytes"), p.get("panic")), p)
    if not ctx.violations and not ctx.known_hits:
        # only now: differences that do not touch the property mean the specification no longer describes the code
        if drift:
            mm = drift[0]
            raise vf.Infra("Socks5.tla does not describe the handler (no C21 violation involved): %d programs differ, "
                           "first: cfg %s step %s %s trace %s" % (len(drift), mm.get("cfg"), mm.get("step"), mm.get("why"),
                                                                 vf.canon(mm.get("trace"))[:1500]))
        if v["violated"] and v["violated"] != "rejected":
            raise vf.Infra("recorded execution violates invariant %s although the harness saw no unauthenticated "
                           "execution" % v["violated"])
        if not v["accepted"]:
            raise vf.Infra("recorded random execution is not a behaviour of Socks5.tla (no C21 violation involved): "
                           "event #%s %s" % (v["hw"], v["event"]))
    ctx.evidence("model_checking",
                 assumptions=["bounded client: one message per step from the token alphabets of scope %s (greeting method "
                              "sets, RFC 1929 credentials valid/shadowed/wrong/unknown/empty/malformed/truncated, requests "
                              "cmd x address type x truncation point), one connection at a time" % scope,
                              "user-list classes none/unusable/plain/hashed/mixed/both stand for all user lists",
                              "bcrypt and constant-time comparison are assumed correct",
                              "WebSocket and TCP variants (thorough) compare executed commands exactly and replies up to "
                              "loss at connection reset"],
                 states=ideal.distinct, transitions=nedges, traces_validated_against_impl=replayed + tsum["traces"],
                 exhaustive=bool(complete) or S.edges_covered(paths, ideal.edges), all_programs_replayed=bool(complete), programs_total_in_model=total, replayed_programs=replayed,
                 replayed_steps=steps, executed_commands=summ["executed"], replay_mismatches=len(mism), deviation_scenarios_run=summ["attack_programs"],
                 trace_events=tsum["events"], trace_executed=tsum["executed"], trace_accepted=v["accepted"],
                 deviations_caught=caught, fuzz=fuzz,
                 session_states=sideal.distinct, session_transitions=sedges, session_programs=ssumm["programs"],
                 session_programs_in_model=stotal, credential_dictionary_literals=summ["dictionary_literals"],
                 credential_dictionary_runs=summ["dictionary_runs"],
                 samples=[{"program": [s["tok"] for s in programs[len(programs) // 3]["steps"]],
                           "cfg": programs[len(programs) // 3]["cfg"]},
                          {"trace_events": v["events"][1:5]}], **extra)
