# ConfigText.tla <-> internal/config  (C35 redaction, C37 variable expansion)
import os
import vf, _partlc

HFILES = ["common/common_test.go.tmpl", "config/redact_test.go"]
COPY_BREAKING = {"leadnl"}       # ConfigText.tla CopyBreaking
INVS = {"redact": "RedactNoSecret RedactOrigUnchanged RedactOthersKept", "expand": "ExpandOK"}
DEVS = {"redact": {"DevFailOpenCopy": "RedactNoSecret", "DevShallowCopy": "RedactOrigUnchanged",
                   "DevSkipRefShaped": "RedactNoSecret"},
        "expand": {"DevReexpand": "ExpandOK", "DevUnsetToEmpty": "ExpandOK", "DevDefaultWhenEmpty": "ExpandOK"}}
REF_SHAPED = {"dollarname", "braceref", "bracedef", "bracewild", "regexmatch"}   # ConfigText.tla RefShaped


def cfg(part, dev=(), emit=True, wide=False):
    return ('CONSTANTS Part = "%s" Dev = {%s} Emit = %s Wide = %s\nINIT Init\nNEXT Next\nINVARIANTS %s%s\n' % (
        part, ",".join('"%s"' % d for d in dev), "TRUE" if emit else "FALSE", "TRUE" if wide else "FALSE",
        INVS[part], " EmitVec" if emit else ""))


def model(ctx, part):
    """ideal spec holds on the whole enumerated domain; each deviation of this part is caught"""
    wide = not ctx.quick()
    jobs = [{"name": "ideal-" + part, "cfg": cfg(part, wide=wide), "workers": 4, "heap": "8g"}]
    jobs += [{"name": d, "cfg": cfg(part, dev=[d], emit=False)} for d in DEVS[part]]
    res = _partlc.run(ctx, "ConfigText", jobs)
    ideal = res["ideal-" + part]
    if ideal.violated:
        raise vf.Infra("ideal ConfigText spec (%s) violates %s (specification error)" % (part, ideal.violated))
    vecs = [o for t, o in ideal.prints if t == "VEC"]
    if not vecs:
        raise vf.Infra("TLC emitted no vectors")
    caught = {}
    for d, inv in DEVS[part].items():
        caught[d] = res[d].violated
        if res[d].violated != inv:
            raise vf.Infra("deviation %s not detected by %s (got %s): vacuous model" % (d, inv, res[d].violated))
    return ideal, vecs, caught


def harness(ctx, test, vecs, env):
    inp = os.path.join(ctx.work, test + ".json")
    e = dict(env)
    if os.environ.get("VERIF_SELFTEST_CORRUPT"):
        # binding self-test: a wrong expectation must make the check fail
        import copy
        vecs = copy.deepcopy(vecs)
        if test == "TestZZVExpand":
            k = next(i for i, v in enumerate(vecs) if any(t["k"] == "ref" for t in v["toks"]) and v["env"]["A"]["set"])
            vecs[k]["oracle"] = [["~"]]
            ctx.log("SELFTEST: corrupted the oracle of expansion case %d" % k)
        else:
            e["ZZV_CORRUPT"] = 1      # the harness treats agent.display_name as one more secret
            ctx.log("SELFTEST: agent.display_name declared secret")
    vf.write_json(inp, {"cases": vecs})
    e["ZZV_IN"] = inp
    r = ctx.gotest("config", HFILES, "^%s$" % test, env=e, timeout=3000, allow_fail=True)
    summ = r.of("summary")
    if not summ:
        if r.of("viol"):
            # the real code died (e.g. unbounded recursion) after violations had been observed: report those
            return None, r
        raise vf.Infra("%s produced no summary:\n%s" % (test, r.out[-3000:]))
    if summ[0]["cases"] != len(vecs):
        raise vf.Infra("%s evaluated %d of %d cases" % (test, summ[0]["cases"], len(vecs)))
    return summ[0], r
