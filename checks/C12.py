# C12 - Flooding converges to valid forwarding paths
#
# Interpretation (DESIGN.md C12): convergence is evaluated at quiescence (no frame in flight, no pending table
# replay / disconnect handling) for every origin that announced after the last topology change - an agent without
# exit routes announces only its presence, and the table replay to a new peer does not contain the replaying
# agent's own presence route, so presence spreads with the next periodic/triggered announcement; the scenarios
# therefore contain an Announce after the links are up.  The hop limit is assumed >= the number of agents - 1.
# "next hop is a current neighbour / path is a chain of actual links" is evaluated while no link was lost (stable
# topology, as in the statement).
# Reconnects: a peer that connects again after a link loss gets the other end's table replay; at quiescence it must hold
# every route the other end holds and could give it (Resynced) - also when the seen cache still remembers the replayed
# announcements.  Evaluated while that connect is the last topology / ageing event.
import vf, _flood as F

DEVS = ["DevNoPathPrepend", "DevSeenBlocksResync"]
WFILES = ["common/common_test.go.tmpl", "agent/flood_wiring_test.go"]


def cfgs(ctx):
    l2, l3 = F.L(("a", "b")), F.L(("a", "b"), ("b", "c"))
    t3 = F.L(("a", "b"), ("b", "c"), ("a", "c"))
    out = [F.base("c12-stable3", F.A3, t3, initups=[l2, l3, t3], exits=[["a"], ["b"], ["a", "c"]]),
           F.base("c12-join3", F.A3, l3, initups=[l2], exits=[["a"], ["c"]], announcers=["a", "c"], conn=1),
           # a link is lost and comes back (within the seen-cache lifetime): the table replay must restore the routes
           F.base("c12-rejoin3", F.A3, l3, initups=[l3], exits=[["a"], []], announcers=["a"], conn=1, disc=1)]
    if not ctx.quick():
        out.append(F.base("c12-rejoin3t", F.A3, t3, initups=[l3, t3], exits=[["a"], []], announcers=["a"], conn=1, disc=1))
        k4 = [("a", "b"), ("a", "c"), ("a", "d"), ("b", "c"), ("b", "d"), ("c", "d")]
        tops4 = [F.L(("a", "b"), ("b", "c"), ("c", "d")), F.L(("a", "b"), ("a", "c"), ("a", "d")),
                 F.L(("a", "b"), ("b", "c"), ("c", "d"), ("a", "d")), F.L(("a", "b"), ("b", "c"), ("a", "c"), ("c", "d")),
                 F.L(("a", "b"), ("b", "c"), ("c", "d"), ("a", "d"), ("a", "c")), F.L(*k4)]
        out.append(F.base("c12-stable4", F.A4, F.L(*k4), initups=tops4, exits=[["a"], ["a", "d"]], announcers=["a", "d"], replay=False))
        out.append(F.base("c12-stable4r", F.A4, F.L(*k4), initups=tops4, exits=[["a"]], announcers=["a"]))
        out.append(F.base("c12-ring4r", F.A4, tops4[2], initups=[tops4[0], tops4[2]], exits=[["a"], ["b"]], announcers=["a", "c"]))
    return out


def run(ctx):
    runs = F.model(ctx, cfgs(ctx))
    caught = F.sensitivity(ctx, DEVS)
    rep = F.replay(ctx, runs)
    # the same on a real Agent: handlePeerDisconnect, then the peer's table replay
    g = ctx.gotest("agent", WFILES, "^TestZZVFloodReconnectResync$", timeout=900)
    rs = g.of("resync")
    if not rs or not (rs[0]["learned"] and rs[0]["removed_on_disconnect"]):
        raise vf.Infra("resync harness could not reach the state (route learned, removed on disconnect): %s" % rs)
    if not rs[0]["restored"]:
        ctx.finding("Flood:DevSeenBlocksResync:agent.handlePeerDisconnect",
                    "a peer was lost and came back within the seen-cache lifetime: its table replay (origin's sequence) was dropped as "
                    "already seen and the routes Agent.handlePeerDisconnect had removed were not restored", rs[0])
    ntr, nops = (25, 50) if ctx.quick() else (1200, 100)
    tr = F.traces(ctx, "TestZZVFloodTrace", {"ZZV_TRACES": ntr, "ZZV_OPS": nops}, "c12trace")
    F.report(ctx, "C12", rep, [tr])
    st, trn = F.coverage(runs)
    ctx.evidence("model_checking",
                 assumptions=["bounded model: all connected topologies with <= %d agents, exit routes at one or two agents, every delivery order" % (3 if ctx.quick() else 4),
                              "convergence is evaluated at quiescence for origins that announced after the last topology change; max_hops >= agents-1",
                              "the STREAM_OPEN walk is the forwarding rule of agent.handleStreamOpen transcribed (Flood.tla Walk, harness walk); "
                              "tunnels are not opened on whole agents here"],
                 states=st, transitions=trn, traces_validated_against_impl=rep["paths"] + tr["summary"]["traces"],
                 exhaustive=True, replayed_paths=rep["paths"], replayed_steps=rep["steps"], replay_edges=rep["edges"],
                 replay_forks=rep["forks"], replay_mismatches=len(rep["mismatches"]),
                 trace_events=tr["summary"]["events"], trace_highwater=tr["v"]["hw"], trace_accepted=tr["v"]["accepted"],
                 deviations_caught=caught, samples=rep["samples"] + [{"random_schedule": s} for s in tr["summary"]["sample"][:2]])
