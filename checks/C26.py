# C26 - File transfer and browsing stay inside the allowed paths
#  * Creating the missing PARENT directories of an allowed destination (os.MkdirAll before an upload) is counted as part
#    of creating that destination: with a pattern such as /r/*/a an upload to /r/x/a creates /r/x, which the pattern
#    itself does not match; this is not reported (permissive reading).
#
# Interpretation (permissive side):
#  * The verbs of the statement are read / write / create / list / chmod / delete.  Returning only METADATA of a path
#    (the stat operation; type of a link's target in a listing; the emptiness probe of delete) is not one of them and is
#    not counted, except that with NO allowed paths configured even a successful stat is a violation ("nothing is
#    touched").
#  * "inside the configured allowed paths, after symbolic links are resolved": the real path matches an allowed
#    pattern with the pattern semantics the configuration documents (prefix, glob matching the path or an ancestor,
#    "/**", "*"), where a pattern also stands for itself with the links of its base directory resolved (an allowed
#    root that is itself a link allows what it points to).
#  * Verdicts come only from the real run: the harness derives the real paths read / listed / modified from
#    before / after snapshots of the whole temp tree and from the returned content, and checks them with its own
#    implementation of the pattern semantics.  A pure difference between the code and the spec's prediction that
#    touches nothing outside is a binding problem (exit 2).
#  * Not modelled: Unicode normalisation differences between the validated and the used path, concurrent
#    modification of the tree between validation and use, resume offsets, rate limits, authentication (C26 is about
#    paths; every request is authenticated/enabled).
import vf, _fileaccess as F

SLOTS_Q = [["r", "a"], ["r", "b"], ["r", "a", "a"]]
SLOTS_T = [["r", "a"], ["r", "b"], ["r", "a", "a"], ["r", "a", "b"], ["r", "b", "a"]]
LT_Q = [["abs", "o"], ["abs", "o", "a"], ["rel", "..", "o"], ["rel", "b"], ["abs", "o", "z"]]
LT_T = LT_Q + [["abs", "r", "b"], ["rel", "..", "b"]]   # no target resolving to the world root (not modelled)
PAT_ALL = [[], [["abs", "r"]], [["abs", "r", "*"]], [["abs", "r", "**"]], [F.WILD], [["abs", "r", "a"]]]
# z never exists: requests with one, two and three missing trailing elements (also below a link at any depth)
REQ_Q = [["abs", "r"], ["abs", "r", "a"], ["abs", "r", "b"], ["abs", "r", "a", "a"], ["abs", "r", "a", "b", "a"],
         ["abs", "o", "a"], ["abs", "r", "..", "o", "a"], ["rel", "r", "a"], ["abs", "r", "^A"],
         ["abs", "r", "a", "z", "z"], ["abs", "r", "a", "a", "z", "z"]]
REQ_T = REQ_Q + [["abs", "r", "a", "b"], ["abs", "r", "b", "a"], ["abs", "r", "a", "z"], ["abs", "r", "a", "a", "z"],
                 ["abs", "r", "a", "z", "z", "z"], ["abs", "r", "b", "z", "z"]]
# inner-glob pattern forms (a "*" element that is not the last one): the base directory /r is wider than the pattern
PAT_GLOB = [[["abs", "r", "*", "a"]], [["abs", "r", "*", "a"], ["abs", "r", "b", "b"]]]
SLOTS_G = [["r", "a"], ["r", "b"], ["r", "a", "a"], ["r", "b", "b"]]
LT_G = [["abs", "r", "b"], ["abs", "o"], ["rel", "..", "b", "b"]]
REQ_G = [["abs", "r", "a", "a"], ["abs", "r", "a", "a", "a"], ["abs", "r", "a", "a", "b"], ["abs", "r", "b", "b"],
         ["abs", "r", "b"], ["abs", "r", "a"], ["abs", "r", "a", "a", "z", "z"]]
DEV_OF_OP = {"download": "DevFinalComponentOnly"}


def run(ctx):
    quick = ctx.quick()
    slots, lts, reqs = (SLOTS_Q, LT_Q, REQ_Q) if quick else (SLOTS_T, LT_T, REQ_T)
    # 1a. every allowed-path form over the small trees; 1b. every tree (<= 2 links) under the prefix forms
    runs = [("MCAp", SLOTS_Q[:2], LT_Q[:3], PAT_ALL, reqs, 1, 1 if quick else 2),
            ("MCAt", slots, lts, [[["abs", "r"]], [["abs", "r", "a"]]] if not quick else [[["abs", "r"]]], reqs,
             1 if quick else 2, 2 if quick else 3),
            # 1c. inner-glob patterns with links to siblings below the pattern's base directory
            ("MCAg", SLOTS_G, LT_G, PAT_GLOB[:1] if quick else PAT_GLOB, REQ_G, 1 if quick else 2, 3)]
    edges, states = [], 0
    for tag, sl, lt, pats, rq, ml, mn in runs:
        r = F.a_run(ctx, sl, lt, pats, rq, ml, mn, tag=tag)
        if r.violated:
            raise vf.Infra("ideal FileAccess spec (part A, %s) violates %s (specification error)" % (tag, r.violated))
        edges += r.edges
        states += r.distinct
    # 2. sensitivity: each deviation must be caught
    caught = {}
    for d in ("DevLexicalOnly", "DevFinalComponentOnly"):
        r = F.a_run(ctx, SLOTS_Q[:1], LT_Q[:1], [[["abs", "r"]]], REQ_Q[:4], 1, 1, dev=(d,), emit=False,
                    expect_violation=True, tag="MCAdev")
        caught[d] = r.violated
        if r.violated != "AccessInv":
            raise vf.Infra("deviation %s not detected by AccessInv (vacuous model): %s" % (d, r.violated))
    cases = F.a_cases(edges)
    # 3. replay on the real handler functions
    summ, mism, escapes = F.a_replay(ctx, cases)
    devrel = None
    if escapes:
        devrel = {}
        for tag, sl, lt, pats, rq, ml, mn in runs:
            r = F.a_run(ctx, sl, lt, pats, rq, ml, mn, dev=("DevLexicalOnly", "DevFinalComponentOnly"), invs=False,
                        tag=tag + "rel")
            for e in r.edges:
                devrel[F.a_key(e)] = e
    byid = {c["id"]: c for c in cases}
    for esc in escapes:
        c = byid[esc["id"]]
        op = c["a"]["op"]
        dev = DEV_OF_OP.get(op, "DevLexicalOnly")
        d = devrel.get(F.a_key(c))
        explained = d is not None and d["a"]["ok"] == esc["real_ok"] and sorted(
            "%s:%s" % (t["v"], "/".join(t["p"])) for t in d["tch"] if t["v"] != "stat") == sorted(esc["real_touched"])
        key = "FileAccess:%s:%s" % (dev if explained else "unexplained", op)
        ctx.finding(key, "%s %s under allowed paths %s touched %s outside the allowed paths (tree: %s)" % (
            op, esc["req"], ["/".join(p) for p in esc["pats"]], esc["outside"],
            {p: (e["k"] + (" -> " + e["t"] if e.get("t") else "")) for p, e in esc["tree"].items()
             if p.startswith("r/")}), esc)
    benign = [m for m in mism if not m.get("escape")]
    if benign and not ctx.violations and not ctx.known_hits:
        m = benign[0]
        raise vf.Infra("binding mismatch without a property violation: %s %s: %s (%d such cases) - FileAccess.tla no "
                       "longer describes stream.go / browse.go" % (m["op"], m["req"], m["diffs"], len(benign)))
    # 4. binding self-test
    probe = cases[:30]
    s2, m2, _ = F.a_replay(ctx, probe, corrupt=probe[-1]["id"], name="access_probe.json")
    if not any(m["id"] == probe[-1]["id"] for m in m2):
        raise vf.Infra("binding self-test failed: corrupted expected result was not detected")
    mid = len(cases) // 2
    ctx.evidence("model_checking",
                 assumptions=["file system semantics of FsCore.tla (Linux path resolution as used by the Go runtime), "
                              "validated by comparing the complete real tree, the result and the returned content with "
                              "the prediction for every enumerated case",
                              "bounded: slots %s, link targets %s, allowed-path forms %s, requests %s, one request per "
                              "tree" % (["/".join(s) for s in slots], ["/".join(t) for t in lts],
                                        [["/".join(p) for p in c] for c in PAT_ALL + PAT_GLOB], ["/".join(r) for r in reqs]),
                              "no concurrent modification between validation and use; ASCII names (Unicode "
                              "normalisation of the validated vs. used path not modelled); glob elements are whole-"
                              "component '*' only (partial globs such as /r/a* not modelled)"],
                 states=states, transitions=len(cases), traces_validated_against_impl=summ["cases"], exhaustive=True,
                 replay_mismatches=summ["mismatches"], real_escapes=summ["escapes"], real_ops_ok=summ["ops_ok"],
                 real_ops_failed=summ["ops_failed"], per_op=summ["per_op"], deviations_caught=caught,
                 samples=[{"tree": [n for n in c["tree"] if n["p"][0] == "r"], "pats": c["pats"], "op": c["a"]["op"],
                           "req": c["a"]["req"], "predicted_ok": c["a"]["ok"]} for c in cases[mid:mid + 3]]
                 + [summ.get("sample")])
