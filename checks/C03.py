# C03 - Tunnel ends derive the same key; distinct tunnels get distinct keys; degenerate remote keys are refused
#
# Interpretation (permissive where the statement leaves a choice):
#  * "the ingress and the exit end up with the same session key": checked for every tunnel that the ingress reports as
#    open; judged on two REAL endpoints (cmesh, 1 and 2 transits) - the arguments each end passes to
#    crypto.DeriveSessionKey must be (rid of the OPEN, key of the OPEN, key of the ACK) and the key fingerprints equal.
#  * "an all-zero or low-order remote key is refused instead of producing a usable key": the verdict is about the KEY -
#    no session key may ever be derived from a degenerate remote key (zero, the low-order points, their non-canonical
#    encodings, with or without bit 255).  Acceptable outcomes are therefore {open error} and {no key at all}.  The
#    second one exists in the code: a UDP / ICMP endpoint reads an ALL-ZERO key as "the peer does not encrypt" and opens
#    the association without any key exchange (plaintext fallback; reachable only with a dishonest peer, it is outside
#    C04's "honest endpoints" and is reported in the evidence notes, not as a violation).
#  * a reference HKDF written from the anchors is only used as a stand-in for "the other real end" when it agrees with
#    the code on at least one real call site of the opposite role.
import vf, _keyagreement as K


def run(ctx):
    m = K.model(ctx, "C03")
    notes = []

    # ---- E3: real tunnels of every kind, trace validation of the key-agreement events
    T = K.run_traces(ctx)
    notes.append(T["note"])

    def relevant(ev, kind, prior):
        if K.extra_derivation(ev, prior):
            return None                                   # a third key holder is C04's business
        if ev["ev"] == "Derive":
            return "KeyAgreement:derive:%s:%s" % (kind, "init" if ev.get("init") else "resp")
        if ev["ev"] in ("Open", "Ack", "Err", "Fail"):
            return "KeyAgreement:%s:%s:hop%s" % (ev["ev"].lower(), kind, ev.get("hop", ""))
        return None

    validated = 0
    dropped = []
    samples = []
    kinds_seen = {}
    sites = {}
    skipped = {}
    for nt in (1, 2):
        tp = T["topos"][nt]
        n, findings, dr, segs = K.validate_all(ctx, nt, tp["events"], "c03-nt%d" % nt, relevant,
                                               keep=lambda e: e["ev"] not in ("Data", "Recv"))
        validated += n
        dropped += dr
        for key, what, art, kind in findings:
            ctx.finding(key, what, art)
        for k, v in tp["info"]["kinds"].items():
            kinds_seen[k] = kinds_seen.get(k, 0) + v
        for k, v in tp["info"]["sites"].items():
            sites[k] = sites.get(k, 0) + v
        for k, v in tp["info"]["skipped"].items():
            skipped[k] = skipped.get(k, 0) + v
        if segs:
            samples.append({"transits": nt, "scenario": segs[len(segs) // 2][:9]})
    for d in T["rec"].of("dupkey"):
        ctx.finding("KeyAgreement:same-key-in-different-tunnels",
                    "tunnels with different request ids / ephemeral keys derived the same key %s: %s" % (d["fp"], d["tunnels"]), d)
    for a in T["rec"].of("anomaly"):
        if a.get("what") == "open payload differs from the previous hop":
            ctx.finding("KeyAgreement:relay-altered-open", "a transit changed rid / ephemeral key of an OPEN: %s" % a.get("frame"), a)
    if dropped:
        notes.append("%d scenario group(s) were rejected at an event that concerns C04 only and were left out" % len(dropped))

    # ---- E4 on whole agents: degenerate keys from puppet peers
    pv, ps, _ = K.run_puppet(ctx)
    vec = {(v["kind"], v["side"], v["class"]): v for v in m["vec"]}
    outcomes = {}
    drift = []
    fallback = []
    ref_ok = {"resp": [], "init": []}
    degbad = {}
    for r in pv:
        kind = "icmp" if r["kind"] == "icmp-ws" else r["kind"]
        v = vec.get((kind, r["side"], r["class"]))
        if v is None:
            raise vf.Infra("no TLC vector for %s" % r)
        out = r["outcome"]
        outcomes[out] = outcomes.get(out, 0) + 1
        site = "%s:%s" % (r["side"], r["kind"])
        if out not in v["oracle"]:
            degbad.setdefault((site, out, tuple(v["oracle"])), []).append(r)
            continue
        if out != v["impl"]:
            drift.append({"site": site, "class": r["class"], "real": out, "transcription": v["impl"]})
        if out == "nokey":
            fallback.append(site + ("(plaintext seen by the transit)" if r.get("plaintext_seen") else ""))
        if out == "derive":
            if not r.get("args_ok"):
                ctx.finding("KeyAgreement:derive-arguments:%s" % site,
                            "%s derived its key from arguments other than (rid of OPEN, key of OPEN, key of ACK)" % site, r)
            ref_ok[r["side"]].append((site, bool(r.get("ref_ok")), r))
    for (site, out, oracle), rs in sorted(degbad.items()):
        ctx.finding("KeyAgreement:remote-key-class:%s:%s" % (site, out),
                    "%s %s: remote key classes %s give outcome '%s', acceptable %s" % (
                        "exit answering a puppet ingress," if site.startswith("resp") else "ingress answered by a puppet exit,",
                        site.split(":")[1], sorted(r["class"] for r in rs), out, list(oracle)), rs)
    for side, other in (("resp", "init"), ("init", "resp")):
        if any(ok for _, ok, _ in ref_ok[other]) or any(ok for _, ok, _ in ref_ok[side]):
            for site, ok, r in ref_ok[side]:
                if not ok:
                    ctx.finding("KeyAgreement:key-differs-from-other-sites:%s" % site,
                                "%s derives a key that differs from the key the other call sites (and the reference HKDF) derive from "
                                "the same inputs" % site, r)
        elif ref_ok[side]:
            notes.append("reference HKDF disagrees with every real call site (%s): not used as an oracle" % side)
    if drift:
        notes.append("transcription ImplOutcome differs from the code (still inside the oracle): %s" % drift[:6])
    if fallback:
        notes.append("all-zero remote key on udp/icmp: association opened WITHOUT any key (plaintext fallback, needs a dishonest "
                     "peer; not a C03 violation under the stated interpretation): %s" % sorted(set(fallback)))
    for k, v in ps.get("skipped", {}).items():
        skipped["puppet:" + k] = v

    # ---- boundary request identifiers on every responder / steerable initiator path
    bv, bs = K.run_boundary(ctx)
    b_out = {}
    b_ref = []
    refused = []
    for r in bv:
        site = "%s:%s" % (r["side"], r["kind"])
        b_out[r["outcome"]] = b_out.get(r["outcome"], 0) + 1
        if r["outcome"] != "ack":
            refused.append("%s rid=%s" % (site, r["ridclass"]))
            continue
        if r.get("derives") != 1:
            ctx.finding("KeyAgreement:boundary-rid:%s:rid=%s:derivations" % (site, r["ridclass"]),
                        "%s with request id %s (%s): %s key derivations for one open" % (site, r["rid"], r["ridclass"], r.get("derives")), r)
            continue
        if not r.get("args_ok"):
            ctx.finding("KeyAgreement:boundary-rid:%s:rid=%s:arguments" % (site, r["ridclass"]),
                        "%s with request id %s (%s; hop stream id %s): the key is derived from request id %s / keys other than those "
                        "on the wire" % (site, r["rid"], r["ridclass"], r.get("last_hop_sid", r.get("first_hop_sid")), r.get("derive_rid")), r)
        if r.get("reply_ok") is False:
            ctx.finding("KeyAgreement:boundary-rid:%s:rid=%s:unusable" % (site, r["ridclass"]),
                        "%s with request id %s (%s): data sealed under the key an honest peer derives is not accepted / the answer "
                        "does not open under it" % (site, r["rid"], r["ridclass"]), r)
        b_ref.append((site, r["ridclass"], bool(r.get("ref_ok")), r))
    if any(ok for _, _, ok, _ in b_ref):
        for site, rc, ok, r in b_ref:
            if not ok:
                ctx.finding("KeyAgreement:boundary-rid:%s:rid=%s:key" % (site, rc),
                            "%s with request id %s (%s): the derived key differs from the key every other site / request id derives from "
                            "the same inputs" % (site, r["rid"], rc), r)
    if len(refused) == len(bv):
        raise vf.Infra("boundary harness: every open was refused")
    if refused:
        notes.append("opens refused for a reason unrelated to keys in the boundary run: %s" % refused[:8])
    for k, v in bs.get("skipped", {}).items():
        skipped["boundary:" + k] = v

    # ---- E4 on the crypto package
    cl, tr, rn = K.run_vectors(ctx, m)
    ecdh = {v["class"]: v for v in m["vece"]}
    ecdh_bad = []
    for c, r in sorted(cl.items()):
        exp = ecdh[c]
        if exp["degenerate"]:
            if r["ref_degenerate"] != r["n"]:
                raise vf.Infra("class table wrong: %s is not degenerate for x/crypto X25519 (%s)" % (c, r))
            if r["derived"] or r["nonzero_secret_with_error"]:
                ecdh_bad.append(r)
        else:
            if r["ref_degenerate"]:
                raise vf.Infra("class table wrong: valid keys rejected by x/crypto X25519")
            if r["refused"] or r["zero_secret_returned"] or r["commute"] != r["n"]:
                ctx.finding("KeyAgreement:ComputeECDH:valid", "ComputeECDH on honest keys: refused=%d zero=%d commuting=%d of %d" % (
                    r["refused"], r["zero_secret_returned"], r["commute"], r["n"]), r)
    if ecdh_bad:
        ctx.finding("KeyAgreement:ComputeECDH:degenerate-key-accepted",
                    "ComputeECDH returned a shared secret for the degenerate remote key classes %s" % sorted(r["class"] for r in ecdh_bad),
                    ecdh_bad)
    if tr["role_mismatch"]:
        ctx.finding("KeyAgreement:DeriveSessionKey:role-dependent", "initiator and responder derive different keys from equal inputs "
                    "(%d of %d triples)" % (tr["role_mismatch"], tr["n"]), tr)
    if tr["collisions"]:
        ctx.finding("KeyAgreement:DeriveSessionKey:collision", "different (ipriv, rpriv, rid) give the same key: %s" % tr["collisions"][:5], tr)
    if rn["collisions"]:
        ctx.finding("KeyAgreement:DeriveSessionKey:collision:" + sorted(rn["collisions"])[0],
                    "varying one input does not change the key: %s" % rn["collisions"], rn)
    if tr["ref_mismatch"]:
        notes.append("DeriveSessionKey differs from the reference HKDF on %d triples" % tr["ref_mismatch"])
    if skipped:
        notes.append("skipped (counted): %s - unprivileged ICMP sockets are not available to the harness" % skipped)

    ctx.notes = notes
    K.require_completed(ctx, T)
    ctx.evidence("model_checking",
                 assumptions=["symbolic cryptography in the model: X25519 is a commutative DH, HKDF is injective in (secret, salt), "
                              "a degenerate point yields the all-zero secret for every scalar",
                              "bounded model: 2 concurrent tunnels, 1 and 2 transits, <= 1 data payload per endpoint; kinds of the second "
                              "tunnel restricted in the quick tier (constants in coverage.tlc_runs)",
                              "binding covers the executions that were run: every tunnel kind x payload class x {1,2} transits on real "
                              "agents in memory (cmesh), puppet peers for dishonest endpoints"] + notes,
                 states=m["states"], transitions=m["transitions"],
                 traces_validated_against_impl=validated,
                 exhaustive=True,
                 tlc_runs=m["runs"], deviations_caught=m["caught"],
                 tunnels_by_kind=kinds_seen, derive_sites=sites, distinct_keys=T["summary"]["distinct_keys"],
                 duplicate_keys=T["summary"]["duplicate_keys"],
                 puppet_vectors=len(pv), puppet_outcomes=outcomes, skipped=skipped,
                 boundary_rid_vectors=len(bv), boundary_rid_outcomes=b_out,
                 boundary_rid_equal_to_hop_stream_id=sum(1 for r in bv if r.get("rid_eq_hop_sid")),
                 ecdh_classes=len(cl), ecdh_private_keys_per_class=next(iter(cl.values()))["n"],
                 kdf_symbolic_triples=tr["n"], kdf_random_tuples=rn["n"],
                 notes=notes,
                 samples=samples + [{"puppet_vector": pv[0]}, {"puppet_vector": pv[-1]}, {"boundary_vector": {k: v for k, v in bv[0].items() if k != "k"}},
                                    {"ecdh_class": cl["lo8a"]}, {"tlc_vec": m["vec"][0]}])
