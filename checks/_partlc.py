# Several TLC runs of one module side by side (the ideal configuration and the Dev = {d} sensitivity runs are
# independent; on the shared machine JVM start-up dominates the small runs).  Same conventions as vf.Ctx.tlc:
# scratch copy of /verif/spec, -deadlock (= no deadlock check), Infra on parse / evaluation errors.
import glob, os, shutil, subprocess, time
import vf

_BAD = ("Parsing or semantic analysis failed", "java.lang.OutOfMemoryError", "StackOverflowError",
        "TLC threw an unexpected exception", "Error: TLC encountered", "was not found", "Error: Evaluating",
        "Error: The configuration file", "Error: In evaluation", "Error: Attempted to", "Error: The invariant",
        "Error: TLC was unable", "Unknown operator", "Error: Parsing")


def run(ctx, module, jobs, timeout=3000):
    """jobs: [{"name", "cfg" (text), "workers", "heap"}] -> {name: vf.TLCResult}"""
    started = []
    for j in jobs:
        d = ctx.scratch("ptlc-" + j["name"])
        for f in glob.glob(os.path.join(vf.SPEC, "*")):
            if os.path.isfile(f):
                shutil.copy(f, d)
        with open(os.path.join(d, "MC.cfg"), "w") as f:
            f.write(j["cfg"])
        cmd = ["java", "-XX:+UseParallelGC", "-Xss64m", "-Xmx%s" % j.get("heap", "2g"), "-cp", vf.TLA_CP, "tlc2.TLC",
               "-config", "MC.cfg", "-metadir", os.path.join(d, "states"), "-workers", str(j.get("workers", 1)),
               "-noGenerateSpecTE", "-deadlock", module + ".tla"]
        env = dict(os.environ)
        env.pop("JAVA_TOOL_OPTIONS", None)
        out = open(os.path.join(d, "tlc.out"), "w")
        started.append((j, d, subprocess.Popen(cmd, cwd=d, env=env, stdout=out, stderr=subprocess.STDOUT), out, time.time()))
    results = {}
    deadline = time.time() + timeout
    try:
        for j, d, p, out, t0 in started:
            try:
                p.wait(timeout=max(1, deadline - time.time()))
            except subprocess.TimeoutExpired:
                raise vf.Infra("TLC timeout after %ss on %s/%s" % (timeout, module, j["name"]))
            out.close()
            with open(os.path.join(d, "tlc.out"), errors="replace") as f:
                text = f.read()
            res = vf.TLCResult()
            res.rc, res.out, res.wall = p.returncode, text, time.time() - t0
            vf.parse_tlc_output(text, res)
            bad = [pat for pat in _BAD if pat in text]
            if bad and res.violated is None:
                raise vf.Infra("TLC failure (%s) on %s/%s:\n%s" % (bad[0], module, j["name"], "\n".join(text.splitlines()[-40:])))
            if not res.ok and res.violated is None:
                raise vf.Infra("TLC did not finish cleanly on %s/%s rc=%s:\n%s" % (
                    module, j["name"], p.returncode, "\n".join(text.splitlines()[-40:])))
            ctx.log("TLC %s/%s: %d generated, %d distinct, %.1fs%s" % (
                module, j["name"], res.generated, res.distinct, res.wall,
                (" VIOLATED " + str(res.violated)) if res.violated else ""))
            results[j["name"]] = res
    finally:
        for j, d, p, out, t0 in started:
            if p.poll() is None:
                p.kill()
    return results
