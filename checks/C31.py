# C31 - Reconnection respects pause and bounded exponential backoff
#
# Interpretation (permissive side):
#  * "no new connection attempt starts while paused": an attempt starts when the reconnector invokes its callback
#    (peer.Manager: when handleReconnect dials).  An attempt that is already in flight when Pause is called may finish.
#  * "the delay before the k-th consecutive retry lies within the configured jitter of min(initial*multiplier^k, max)":
#    asserted ONE-SIDED on the real clock: a timer armed with backoff index k must not fire earlier than
#    nominal(k)*(1-jitter) - 2 ms (a timer may always fire late on a loaded machine); that the index used is the right
#    one (k = number of consecutive attempts so far, capped) is checked on the state (state.nextDelay after every step)
#    and by the spec (every attempt is started by a timer armed with index min(n, Cap); no second timer exists).
#  * consecutive = since the state of the address was last created (Cancel / ResetAll / success start a new run).
#  * mismatches that mean FEWER attempts than the spec allows (a timer that never fires, an attempt skipped, a state
#    that differs without breaking the two statements) are not violations: they are reported as binding drift (exit 2).
import vf, _reconnect as R


def run(ctx):
    q = ctx.quick()
    # (addrs, Cap, MaxAttempts, AttBound, MaxGate, MaxInfl, WithStop)
    main = (["a"], 2, 3, 0, 2, 1, False) if q else (["a"], 3, 4, 0, 2, 2, False)
    caught = R.sensitivity(ctx, (["a"], 2, 3, 0, 2, 2, False))
    runs = [("main", main)]
    runs.append(("stop", (["a"], 2, 3, 0, 1, 1, True)))
    if not q:
        runs.append(("unlimited", (["a"], 2, 0, 3, 2, 2, False)))
    results = {}
    drift = []
    for name, consts in runs:
        res = R.replay(ctx, name, consts, par=24 if q else 48)
        results[name] = res
        drift += R.report(ctx, res, "Reconnector")
    if drift and not ctx.violations:
        raise vf.Infra("binding drift: the real Reconnector differs from Reconnect.tla without breaking the statement: %s"
                       % vf.canon(drift[0])[:1200])
    div = sum(r["summary"]["diverged"] for r in results.values())
    if div and not ctx.violations:
        raise vf.Infra("%d paths could not be replayed (real timers fired earlier than the path in every retry)" % div)
    m = results["main"]
    ctx.evidence("model_checking",
                 assumptions=["real timers (20 ms initial delay, multiplier 2, jitter 0.2); a timer firing is awaited, never forced",
                              "one address in the replayed model (timers of several addresses fire in an order the harness "
                              "cannot choose; several addresses are covered by trace validation)",
                              "bounds: " + "; ".join("%s: Cap=%d MaxAttempts=%d AttBound=%d MaxGate=%d MaxInfl=%d Stop=%s" % (
                                  (n,) + tuple(c[1:])) for n, c in runs)],
                 states=sum(r["ideal"].distinct for r in results.values()),
                 transitions=sum(r["edges"] for r in results.values()),
                 traces_validated_against_impl=sum(len(r["paths"]) for r in results.values()),
                 exhaustive=True,
                 replayed_paths=sum(len(r["paths"]) for r in results.values()),
                 replayed_steps=sum(r["summary"]["steps"] for r in results.values()),
                 replay_mismatches=sum(r["summary"]["mismatches"] for r in results.values()),
                 retried_for_timing=sum(r["summary"]["retried"] for r in results.values()),
                 unconfirmed_mismatches=sum(r["summary"]["flaky"] for r in results.values()),
                 observed_delays_ms=m["summary"]["delays"],
                 deviations_caught=caught,
                 samples=[{"replay_path": [s["a"] for s in m["paths"][len(m["paths"]) // 2]["steps"]][:14]}])
