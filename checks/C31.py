# C31 - Reconnection respects pause and bounded exponential backoff
#
# Interpretation (permissive side):
#  * "no new connection attempt starts while paused": an attempt starts when the reconnector invokes its callback
#    (peer.Manager: when handleReconnect dials).  An attempt that is already in flight when Pause is called may finish.
#  * "the delay before the k-th consecutive retry lies within the configured jitter of min(initial*multiplier^k, max)":
#    asserted ONE-SIDED on the real clock: a timer armed with backoff index k must not fire earlier than
#    nominal(k)*(1-jitter) - 2 ms (a timer may always fire late on a loaded machine); that the index used is the right
#    one (k = number of consecutive attempts so far, capped) is checked on the state (state.nextDelay after every step)
#    and by the spec (every attempt is started by a timer armed with index min(n, Cap); no second timer exists).
#  * consecutive = since the state of the address was last created (Cancel / ResetAll / success start a new run).
#  * what counts as a violation (observed on the real code, see _reconnect.VIOLATION_KINDS):
#      begin-while-paused  the callback / the manager's dial was entered while IsPaused() is true
#      early-timer         a timer armed with index k reached attemptReconnect earlier than nominal(k)*(1-jitter) - 2 ms
#      backoff-state       state.nextDelay is not min(initial*multiplier^attempts, max)
#      backoff-order       the n-th consecutive attempt was started by a timer armed with an index other than min(n, Cap)
#      extra-attempt       a second timer of one address fired AND started an attempt of its own (two retries for one delay)
#    A timer the spec does not have that fires and starts nothing, a superseded timer that starts the attempt instead of
#    the current one (with the right index), an attempt skipped, a timer that never fires, a state that differs
#    without breaking the two statements: the code differs from Reconnect.tla but the property is not violated ->
#    reported as binding drift (exit 2), never as VIOLATION.
#  * every replay mismatch must reproduce 3 times on fresh Reconnectors before it is reported (a real timer that fires
#    a few microseconds before the harness stops it would otherwise look like a timer the spec does not have); a path on
#    which a real timer fires earlier than the path wants is retried (legal behaviour, other path).
import vf, _reconnect as R


def run(ctx):
    q = ctx.quick()
    # (addrs, Cap, MaxAttempts, AttBound, MaxGate, MaxInfl, WithStop)
    main = (["a"], 2, 3, 0, 2, 1, False) if q else (["a"], 3, 4, 0, 2, 2, False)
    caught = R.sensitivity(ctx, (["a"], 2, 3, 0, 2, 2, False), separately=not q)
    runs = [("main", main), ("stop", (["a"], 2, 3, 0, 1, 1, True))]
    if not q:
        runs.append(("unlimited", (["a"], 2, 0, 3, 2, 2, False)))
    rep = R.replay(ctx, runs, par=24 if q else 48)
    results = rep["models"]
    drift = R.report(ctx, rep, "Reconnector")
    # the real Manager against a dead address, and random schedules over two addresses (code -> spec)
    msum, mval, mmissing = R.manager(ctx, rounds=2 if q else 12, k=4 if q else 6)
    tr = []
    for name, maxatt in ((("max3", 3),) if q else (("unl", 0), ("max3", 3))):
        tr.append(R.random_traces(ctx, name, 24 if q else 400, 36 if q else 60, maxatt, par=16 if q else 32))
    # agent level: the agent-level model, and real agents on the controlled mesh (Sleep, Wake, Sleep)
    amodel = R.agent_model(ctx)
    asum, aval = R.agent_cmesh(ctx, rounds=1 if q else 3)
    tdrift = [v["drift"] for v in [mval, aval] + [t[1] for t in tr] if v.get("drift")]
    if not ctx.violations:
        if drift:
            raise vf.Infra("binding drift: the real Reconnector differs from Reconnect.tla without breaking the statement: %s"
                           % vf.canon(drift[0])[:1200])
        if tdrift:
            raise vf.Infra("binding drift: a recorded execution is rejected by an event that does not break the statement: %s"
                           % vf.canon(tdrift[0])[:1200])
        if mmissing:
            raise vf.Infra("manager scenario could not be driven: %s" % mmissing[:2])
        div = rep["summary"]["diverged"]
        if div:
            raise vf.Infra("%d paths could not be replayed (real timers fired earlier than the path in every retry)" % div)
    m = results["main"]
    ntr = msum["rounds"] + sum(t[0]["traces"] for t in tr) + asum["rounds"]
    ctx.evidence("model_checking",
                 assumptions=["real timers (20 ms initial delay, multiplier 2, jitter 0.2); a timer firing is awaited, never forced",
                              "replay: one address (timers of several addresses fire in an order the harness cannot choose); "
                              "two addresses are covered by the recorded random schedules validated by TLC",
                              "the random schedules issue an operation only clearly before a pending timer can fire or after "
                              "it has arrived (the order of 'timer fired' and the operation is otherwise unknown)",
                              "agent level: real agents on the in-memory mesh, PollInterval 1 h (no poll), PollDuration 1 s (aggressive "
                              "reconnect ticks every 500 ms); a dial already in flight when the agent falls asleep may finish, two or "
                              "more dials while SLEEPING are a violation; the agent-level model is checked by TLC, its cmesh binding is "
                              "one recorded scenario (Sleep, Wake, ticks, Sleep, wait) validated as a trace",
                              "manager scenario: the dialer is a stub that fails when the harness says so (dead address); "
                              "the manager's own Schedule inside connectWithTransport is logged as CbSchedule",
                              "bounds: " + "; ".join("%s: Cap=%d MaxAttempts=%d AttBound=%d MaxGate=%d MaxInfl=%d Stop=%s" % (
                                  (n,) + tuple(c[1:])) for n, c in runs)],
                 states=sum(r["ideal"].distinct for r in results.values()) + amodel.distinct,
                 transitions=sum(r["edges"] for r in results.values()) + amodel.generated - 1,
                 agent_model_states=amodel.distinct, agent_rounds=asum["rounds"], agent_trace_events=asum["events"],
                 agent_trace_accepted=aval["accepted"],
                 traces_validated_against_impl=sum(len(r["paths"]) for r in results.values()) + ntr,
                 exhaustive=True,
                 replayed_paths=sum(len(r["paths"]) for r in results.values()),
                 replayed_steps=rep["summary"]["steps"],
                 replay_mismatches=rep["summary"]["mismatches"],
                 retried_for_timing=rep["summary"]["retried"],
                 unconfirmed_mismatches=rep["summary"]["flaky"], unconfirmed_kinds=rep["summary"]["flaky_kinds"],
                 observed_delays_ms=rep["summary"]["delays"],
                 manager_rounds=msum["rounds"], manager_trace_events=msum["events"], manager_trace_accepted=mval["accepted"],
                 manager_retry_gaps_ms=msum["gaps"][:12],
                 random_traces=sum(t[0]["traces"] for t in tr), random_trace_events=sum(t[0]["events"] for t in tr),
                 random_traces_accepted=[t[1]["accepted"] for t in tr],
                 deviations_caught=caught,
                 samples=[{"replay_path": [s["a"] for s in m["paths"][len(m["paths"]) // 2]["steps"]][:14]},
                          {"manager_trace_events": msum.get("samples")}, {"random_trace_events": tr[0][0].get("samples")},
                          {"agent_trace_events": asum.get("samples")}])
