# SleepFSM.tla <-> internal/sleep Manager   (C30)
import os
import vf, _replay as R

MODULE = "SleepFSM"
INVS = "TypeOK NoStalePollActivity PersistMatches"
PROPS = "DocumentedEdges RedundantRefused"
DEVS = ["DevPollCallbackAfterWake", "DevStalePollEnd", "DevWakeNoPersist", "DevSleepWhilePolling", "DevPollFromAwake"]
# the part of the statement each deviation breaks, and the (invariants, properties) TLC is run with to show it
DEV_CAUGHT_BY = {"DevPollCallbackAfterWake": ("NoStalePollActivity", "TypeOK NoStalePollActivity", ""),
                 "DevStalePollEnd": ("NoStalePollActivity", "TypeOK NoStalePollActivity", ""),
                 "DevWakeNoPersist": ("PersistMatches", "TypeOK PersistMatches", ""),
                 "DevSleepWhilePolling": ("RedundantRefused", "TypeOK", "RedundantRefused"),
                 "DevPollFromAwake": ("DocumentedEdges", "TypeOK", "DocumentedEdges")}
# site of each deviation in the code (third component of a finding key)
SITE = {"DevPollCallbackAfterWake": "sleep.Manager.Poll", "DevStalePollEnd": "sleep.Manager.Poll",
        "DevWakeNoPersist": "sleep.Manager.Wake", "DevSleepWhilePolling": "sleep.Manager.Sleep",
        "DevPollFromAwake": "sleep.Manager.Poll"}
HFILES = ["common/common_test.go.tmpl", "sleep/sleepfsm_test.go"]


def consts(ctx):
    return {"MaxCalls": 4, "MaxPolls": 3} if ctx.quick() else {"MaxCalls": 6, "MaxPolls": 4}


def base_act(a):
    return {"act": a.get("act"), "p": a.get("p", 0)}


def proj(t):
    return {"st": t["st"], "status": t["st"], "sleeping": t["st"] != "AWAKE", "file": t["file"], "tset": t["tset"],
            "nextSet": t["nextSet"], "lp": t["lp"], "poll": [p["pc"] for p in t["poll"]]}


def same_result(a, mm):
    return a.get("res") == mm.get("real_res") and vf.canon(a.get("cbs", [])) == vf.canon(mm.get("real_cbs", []))


def is_init(t):
    return (t["ncalls"] == 0 and t["npolls"] == 0 and t["pending"] == 0 and t["st"] == "AWAKE" and t["file"] == "none"
            and not t["armed"])


def key_of(dev):
    return "SleepFSM:%s:%s" % (dev, SITE[dev])


def model(ctx):
    """TLC: ideal spec (edges emitted) + one small run per deviation (must be caught by the part of the statement it
    breaks) + the transition relation of every single-deviation variant of the same bounded model (classification)"""
    c = consts(ctx)
    small = {"MaxCalls": 3, "MaxPolls": 2}
    jobs = [dict(module=MODULE, name="ideal", workers=2, cfg=R.cfg_text(c, emit=True, invs=INVS, props=PROPS))]
    for d in DEVS:
        _, invs, props = DEV_CAUGHT_BY[d]
        jobs.append(dict(module=MODULE, name="dev" + d, workers=1, expect_violation=True,
                         cfg=R.cfg_text(small, dev=[d], emit=False, invs=invs, props=props)))
    for d in DEVS:
        jobs.append(dict(module=MODULE, name="rel" + d, workers=1, cfg=R.cfg_text(c, dev=[d], emit=True)))
    res = R.tlc_many(ctx, jobs)
    ideal = res[0]
    if ideal.violated:
        raise vf.Infra("ideal SleepFSM spec violates %s (specification error)" % ideal.violated)
    caught = {}
    for d, r in zip(DEVS, res[1:1 + len(DEVS)]):
        caught[d] = r.violated
        if r.violated != DEV_CAUGHT_BY[d][0]:
            raise vf.Infra("deviation %s: TLC reported %s, expected a violation of %s (vacuous model?)" % (
                d, r.violated, DEV_CAUGHT_BY[d][0]))
    rels = {d: r for d, r in zip(DEVS, res[1 + len(DEVS):])}
    return c, ideal, caught, rels


def build(ctx):
    return R.build_test_binary(ctx, "sleep", HFILES)


def replay(ctx, binpath, doc, tag, env=None, nproc=2):
    # VERIF_CORRUPT=<n>: self-test of the binding - the harness falsifies the expected state file content of its n-th step
    env = dict(env or {}, ZZV_CORRUPT=os.environ.get("VERIF_CORRUPT", "0"))
    return R.replay_parallel(ctx, binpath, "^TestZZVSleepReplay$", doc, "sleep_" + tag, nproc=nproc, env=env)


def describe(mm):
    a = mm.get("a", {})
    sched = " ".join("%s%s" % (x.get("act"), ("(%d)" % x["p"]) if x.get("p") else "") for x in mm.get("prefix", []))
    cb = lambda l: " ".join("%s@%s" % (c.get("cb"), c.get("at")) for c in (l or [])) or "-"
    return ("sleep.Manager schedule [%s]: last step per specification -> %s, callbacks %s, state %s ; real code -> %s, "
            "callbacks %s, state %s" % (sched, mm.get("spec_res"), cb(mm.get("spec_cbs")), vf.canon(mm.get("spec_proj")),
                                        mm.get("real_res"), cb(mm.get("real_cbs")), vf.canon(mm.get("real_t"))))
