# SleepFSM.tla <-> internal/sleep Manager   (C30)
import os
import vf, _replay as R

MODULE = "SleepFSM"
INVS = "TypeOK NoStalePollActivity WakeNotUndone PersistMatches"
PROPS = "DocumentedEdges RedundantRefused"
DEVS = ["DevPollCallbackAfterWake", "DevStalePollEnd", "DevWakeNoPersist", "DevSleepWhilePolling", "DevPollFromAwake",
        "DevPollFastPath", "DevAgentPollEndIgnoresWake"]
# the part of the statement each deviation breaks, and the (invariants, properties) TLC is run with to show it
DEV_CAUGHT_BY = {"DevPollCallbackAfterWake": ("NoStalePollActivity", "TypeOK NoStalePollActivity", ""),
                 "DevStalePollEnd": ("NoStalePollActivity", "TypeOK NoStalePollActivity", ""),
                 "DevWakeNoPersist": ("PersistMatches", "TypeOK PersistMatches", ""),
                 "DevSleepWhilePolling": ("RedundantRefused", "TypeOK", "RedundantRefused"),
                 "DevPollFromAwake": ("DocumentedEdges", "TypeOK", "DocumentedEdges"),
                 "DevPollFastPath": ("DocumentedEdges", "TypeOK", "DocumentedEdges"),
                 "DevAgentPollEndIgnoresWake": ("WakeNotUndone", "TypeOK WakeNotUndone", "")}
# site of each deviation in the code (third component of a finding key)
SITE = {"DevPollCallbackAfterWake": "sleep.Manager.Poll", "DevStalePollEnd": "sleep.Manager.Poll",
        "DevWakeNoPersist": "sleep.Manager.Wake", "DevSleepWhilePolling": "sleep.Manager.Sleep",
        "DevPollFromAwake": "sleep.Manager.Poll", "DevPollFastPath": "sleep.Manager.Poll",
        "DevAgentPollEndIgnoresWake": "agent.Agent.doPoll"}
# deviations of the manager (the agent-level one is not observable on a bare sleep.Manager)
MGR_DEVS = [d for d in DEVS if d != "DevAgentPollEndIgnoresWake"]
HFILES = ["common/common_test.go.tmpl", "sleep/sleepfsm_test.go"]
AGENT_HFILES = ["common/common_test.go.tmpl", "agent/cmesh_test.go", "agent/sleeppoll_test.go"]


def consts(ctx):
    # PollErr: the bare-manager replay also lets the OnPoll callback return an error (seeded/C30-s4)
    return ({"MaxCalls": 4, "MaxPolls": 3, "MaxRestarts": 1, "PollErr": "TRUE"} if ctx.quick()
            else {"MaxCalls": 5, "MaxPolls": 4, "MaxRestarts": 1, "PollErr": "TRUE"})


def base_act(a):
    return {"act": a.get("act"), "p": a.get("p", 0)}


def proj(t):
    return {"st": t["st"], "status": t["st"], "sleeping": t["st"] != "AWAKE", "file": t["file"], "tset": t["tset"],
            "nextSet": t["nextSet"], "lp": t["lp"], "poll": [p["pc"] for p in t["poll"]], "lock": t["lock"],
            "waiter": t["waiter"]}


def same_result(a, mm):
    # the result of PollWait (woken / asleep) is the agent's decision; a bare manager does not make it
    return ((a.get("res") == mm.get("real_res") or a.get("act") == "PollWait")
            and a.get("handoff", "none") == mm.get("real_handoff", "none")
            and vf.canon(a.get("cbs", [])) == vf.canon(mm.get("real_cbs", [])))


def is_init(t):
    return (t["ncalls"] == 0 and t["npolls"] == 0 and t["pending"] == 0 and t["nrestarts"] == 0 and t["st"] == "AWAKE"
            and t["file"] == "none" and not t["armed"] and t["lock"] == "free")


def key_of(dev):
    return "SleepFSM:%s:%s" % (dev, SITE[dev])


def model(ctx):
    """TLC: ideal spec (edges emitted) + one small run per deviation (must be caught by the part of the statement it
    breaks) + the transition relation of every single-deviation variant of the same bounded model (classification)"""
    c = consts(ctx)
    small = {"MaxCalls": 3, "MaxPolls": 2, "MaxRestarts": 1, "PollErr": "TRUE"}
    jobs = [dict(module=MODULE, name="ideal", workers=2, cfg=R.cfg_text(c, emit=True, invs=INVS, props=PROPS))]
    for d in DEVS:
        _, invs, props = DEV_CAUGHT_BY[d]
        jobs.append(dict(module=MODULE, name="dev" + d, workers=1, expect_violation=True,
                         cfg=R.cfg_text(small, dev=[d], emit=False, invs=invs, props=props)))
    for d in MGR_DEVS:
        jobs.append(dict(module=MODULE, name="rel" + d, workers=1, cfg=R.cfg_text(c, dev=[d], emit=True)))
    # small instance for the agent-level replay: ideal, with the known manager deviation, and with the agent deviation
    ac = agent_consts(ctx)
    K = "DevPollCallbackAfterWake"
    for nm, dv in (("agentIdeal", []), ("agentKnown", [K]), ("agentDevIdeal", ["DevAgentPollEndIgnoresWake"]),
                   ("agentDevKnown", [K, "DevAgentPollEndIgnoresWake"])):
        jobs.append(dict(module=MODULE, name=nm, workers=1, cfg=R.cfg_text(ac, dev=dv, emit=True)))
    res = R.tlc_many(ctx, jobs)
    agent = {nm: r for nm, r in zip(("agentIdeal", "agentKnown", "agentDevIdeal", "agentDevKnown"), res[-4:])}
    res = res[:-4]
    ideal = res[0]
    if ideal.violated:
        raise vf.Infra("ideal SleepFSM spec violates %s (specification error)" % ideal.violated)
    caught = {}
    for d, r in zip(DEVS, res[1:1 + len(DEVS)]):
        caught[d] = r.violated
        if r.violated != DEV_CAUGHT_BY[d][0]:
            raise vf.Infra("deviation %s: TLC reported %s, expected a violation of %s (vacuous model?)" % (
                d, r.violated, DEV_CAUGHT_BY[d][0]))
    rels = {d: r for d, r in zip(MGR_DEVS, res[1 + len(DEVS):])}
    return c, ideal, caught, rels, agent


def build(ctx):
    return R.build_test_binary(ctx, "sleep", HFILES)


def replay(ctx, binpath, doc, tag, env=None, nproc=2):
    # VERIF_CORRUPT=<n>: self-test of the binding - the harness falsifies the expected state file content of its n-th step
    env = dict(env or {}, ZZV_CORRUPT=os.environ.get("VERIF_CORRUPT", "0"))
    return R.replay_parallel(ctx, binpath, "^TestZZVSleepReplay$", doc, "sleep_" + tag, nproc=nproc, env=env)


def describe(mm):
    a = mm.get("a", {})
    sched = " ".join("%s%s" % (x.get("act"), ("(%d)" % x["p"]) if x.get("p") else "") for x in mm.get("prefix", []))
    cb = lambda l: " ".join("%s@%s" % (c.get("cb"), c.get("at")) for c in (l or [])) or "-"
    ho = lambda h: "" if h in (None, "none") else " (poll waiting for the lock: %s)" % h
    return ("sleep.Manager schedule [%s]: last step per specification -> %s%s, callbacks %s, state %s ; real code -> %s%s, "
            "callbacks %s, state %s" % (sched, mm.get("spec_res"), ho(mm.get("spec_handoff")), cb(mm.get("spec_cbs")),
                                        vf.canon(mm.get("spec_proj")), mm.get("real_res"), ho(mm.get("real_handoff")),
                                        cb(mm.get("real_cbs")), vf.canon(mm.get("real_t"))))


# ---------------------------------------------------------------------------------------------- agent level (doPoll)
def agent_consts(ctx):
    return {"MaxCalls": 2 if ctx.quick() else 3, "MaxPolls": 1, "MaxRestarts": 0, "PollErr": "FALSE"}


def agent_edges(edges):
    """Contract the transition relation to what can be scheduled on a whole agent: Sleep / Wake are complete calls
    (SleepBegin+SleepEnd, WakeBegin+WakeEnd with nobody arriving in between), states with the lock held disappear."""
    by_s = {}
    for e in edges:
        by_s.setdefault(vf.canon(e["s"]), []).append(e)
    out = []
    for e in edges:
        a = e["a"]
        if e["s"]["lock"] != "free" or a["act"] in ("PollEnter", "Restart"):
            continue
        if a["act"] in ("SleepBegin", "WakeBegin"):
            name = "Sleep" if a["act"] == "SleepBegin" else "Wake"
            if a["res"] == "refused":
                out.append({"s": e["s"], "a": {"act": name, "p": 0, "res": "refused"}, "t": e["t"]})
                continue
            ends = [x for x in by_s.get(vf.canon(e["t"]), []) if x["a"]["act"] == name + "End"]
            if len(ends) != 1:
                raise vf.Infra("agent_edges: %d %sEnd transitions after %s" % (len(ends), name, a["act"]))
            out.append({"s": e["s"], "a": {"act": name, "p": 0, "res": "ok"}, "t": ends[0]["t"]})
            continue
        if a["act"] in ("SleepEnd", "WakeEnd"):
            continue
        out.append({"s": e["s"], "a": {"act": a["act"], "p": a.get("p", 0), "res": a["res"]}, "t": e["t"]})
    # keep what is reachable without the dropped transitions
    succ = {}
    for e in out:
        succ.setdefault(vf.canon(e["s"]), []).append(e)
    seen = set(vf.canon(e["s"]) for e in out if is_init(e["s"]))
    todo = list(seen)
    while todo:
        for e in succ.get(todo.pop(), []):
            k = vf.canon(e["t"])
            if k not in seen:
                seen.add(k)
                todo.append(k)
    return [e for e in out if vf.canon(e["s"]) in seen]


def agent_proj(t):
    return {"st": t["st"], "file": t["file"], "conn": t["conn"], "poll": [p["pc"] for p in t["poll"]]}


def agent_same_result(a, mm):
    return a.get("res") == mm.get("real_res")


def agent_replay(ctx, doc, tag, window_ms):
    import os
    inp = os.path.join(ctx.work, "sleep_agent_%s.json" % tag)
    vf.write_json(inp, doc)
    r = ctx.gotest("agent", AGENT_HFILES, "^TestZZVSleepPollAgent$", env={"ZZV_IN": inp, "ZZV_WINDOW_MS": window_ms},
                   timeout=1500)
    return R.collect(r, "agent poll replay")


def agent_describe(mm):
    sched = " ".join("%s%s" % (x.get("act"), ("(%d)" % x["p"]) if x.get("p") else "") for x in mm.get("prefix", []))
    return ("agent.Agent (sleep enabled, peer Y) schedule [%s]: last step per specification -> %s, state %s ; real agent "
            "-> %s, state %s  (conn = listeners registered and peer link up)" % (
                sched, mm.get("spec_res"), vf.canon(mm.get("spec_proj")), mm.get("real_res"), vf.canon(mm.get("real_t"))))
