# Control.tla <-> internal/agent control requests on the controlled mesh (C39)
import os, json
import vf
from _ctlreg import par, trace_actions, path_cover as big_path_cover

PROP_INVS = "DeliveredToIssuerFromTarget ErrorOnlyForBrokenPath NoResponseLost QuietComplete"
ALL_INVS = "TypeOK " + PROP_INVS + " TablesDisjoint QuietClean"
DEVS = ["DevForwardTableKeyedByIdOnly", "DevOwnPendingSwallowsRelayed", "DevFailFastUnderForwardId"]
# site of each deviation in the code (part of the finding key)
SITE = {"DevForwardTableKeyedByIdOnly": "agent.forwardedControl", "DevOwnPendingSwallowsRelayed": "agent.pendingControl",
        "DevFailFastUnderForwardId": "agent.handlePeerDisconnect"}
# askers of the seed scenario of each deviation (the smallest configuration that exposes it)
SEED_ASKERS = {"DevForwardTableKeyedByIdOnly": ["A", "B"], "DevOwnPendingSwallowsRelayed": ["A", "B", "T"],
               "DevFailFastUnderForwardId": ["A", "B", "T"]}
# bounds (MaxReq, MaxPer, Cancels, MaxDown) and invariants of each deviation's seed run
SEED_CFG = {"DevForwardTableKeyedByIdOnly": (2, 1, 0, 0), "DevOwnPendingSwallowsRelayed": (2, 1, 0, 0),
            "DevFailFastUnderForwardId": (3, 2, 0, 1)}
SEED_INVS = {"DevFailFastUnderForwardId": "ErrorOnlyForBrokenPath"}
HFILES = ["common/common_test.go.tmpl", "agent/cmesh_test.go", "agent/ctlreg_await_test.go", "agent/control_test.go"]


def cfg(askers, maxreq, maxper, cancels, maxdown=0, dev=(), emit=False, invs=ALL_INVS):
    return ("CONSTANTS Askers = {%s} MaxReq = %d MaxPer = %d Cancels = %d MaxDown = %d Dev = {%s} Emit = %s\n"
            "INIT Init\nNEXT Next\nVIEW view\nACTION_CONSTRAINT EmitEdge\n%s" % (
                ",".join('"%s"' % a for a in askers), maxreq, maxper, cancels, maxdown, ",".join('"%s"' % d for d in dev),
                "TRUE" if emit else "FALSE", ("INVARIANTS " + invs + "\n") if invs else ""))


def model(ctx):
    """TLC: the ideal design satisfies the property on the bounded instances (every interleaving of frame
    deliveries); every deviation is caught; returns the emitted relations of the replayed instances."""
    askers = ["A", "B", "T"]
    # (MaxReq, MaxPer, Cancels, MaxDown); every transition of these instances is replayed on real agents
    small = (2, 2, 1, 0) if ctx.quick() else (3, 2, 1, 0)
    downinst = (2, 2, 0, 1) if ctx.quick() else (2, 2, 1, 1)     # with a target's connection breaking
    downaskers = ["A", "T"] if ctx.quick() else askers
    # exhaustive check only
    bigs = [(2, 2, 1, 1)] if ctx.quick() else [(4, 2, 1, 0), (3, 2, 0, 1)]
    w = 2 if ctx.quick() else 4

    def ideal_job(bounds, name, who=askers):
        def job(c):
            fn = "MC-%s.cfg" % name
            return c.tlc("Control", fn, files={fn: cfg(who, *bounds, emit=True)}, name="Control-" + name, workers=w)
        return job

    def dev_job(d):
        def job(c):
            fn = "MCdev-%s.cfg" % d
            return c.tlc("Control", fn, files={fn: cfg(SEED_ASKERS[d], *SEED_CFG[d], dev=[d], invs=SEED_INVS.get(d, PROP_INVS))},
                         expect_violation=True, name="Control-" + d, workers=2)
        return job
    res = par(ctx, [ideal_job(small, "replayed"), ideal_job(downinst, "replayed-down", downaskers)] + [dev_job(d) for d in DEVS])
    ideals = res[:2]
    for r in ideals:
        if r.violated:
            raise vf.Infra("ideal Control spec violates %s (specification error)" % r.violated)
    caught, seeds = {}, []
    for d, r in zip(DEVS, res[2:]):
        if not r.violated:
            raise vf.Infra("deviation %s not detected by the invariants (vacuous model)" % d)
        caught[d] = r.violated
        seeds.append({"name": d, "steps": trace_actions(r)})
    return {"askers": askers, "bigs": bigs, "small": small, "downinst": downinst + (",".join(downaskers),), "ideals": ideals, "caught": caught,
            "seeds": seeds}


def replay(ctx, mdl, shards=None, stress=None):
    """Replay the edge cover of the ideal relation and the deviations' seed scenarios on real agents; concurrently
    check the larger instance (thorough) and run the free-running stress test."""
    paths, nnodes, nedges = [], 0, 0
    for r in mdl["ideals"]:
        cover = vf.path_cover if len(r.edges) <= 20000 else big_path_cover
        p, n, e = cover(r.edges)
        paths, nnodes, nedges = paths + p, nnodes + n, nedges + e
    ctx.rng.shuffle(paths)
    if os.environ.get("VERIF_CORRUPT"):
        # binding self-test: corrupt ONE expected state (the answering agent of one delivered result); the run must
        # end with a VIOLATION
        done = False
        for p in paths:
            for st in p["steps"]:
                if st["t"]["done"] and not done:
                    d = st["t"]["done"][0]
                    d["who"] = "Y" if d["who"] == "X" else "X"
                    done = True
        ctx.log("VERIF_CORRUPT: one expected result corrupted:", done)
    inp = os.path.join(ctx.work, "control_paths.json")
    vf.write_json(inp, {"paths": paths, "scenarios": mdl["seeds"]})
    if shards is None:
        shards = 3 if ctx.quick() else 6
    rounds, per = stress or ((25, 2) if ctx.quick() else (400, 3))

    def shard_job(i):
        def job(c):
            run = "^TestZZVCtlReplay$" if i else "^TestZZVCtl(Replay|Stress)$"      # shard 0 also runs the stress test
            return c.gotest("agent", HFILES, run, timeout=2400,
                            env={"ZZV_IN": inp, "ZZV_SHARD": i, "ZZV_NSHARD": shards, "ZZV_ROUNDS": rounds, "ZZV_PER": per})
        return job

    def big_job(bounds):
        def job(c):
            fn = "MCbig-%d%d%d%d.cfg" % bounds
            return c.tlc("Control", fn, files={fn: cfg(mdl["askers"], *bounds)}, name="Control-big", timeout=2400)
        return job
    nb = len(mdl["bigs"])
    res = par(ctx, [big_job(b) for b in mdl["bigs"]] + [shard_job(i) for i in range(shards)])
    for r_big in res[:nb]:
        if r_big.violated:
            raise vf.Infra("ideal Control spec violates %s on the larger instance (specification error)" % r_big.violated)
    mdl["r_bigs"] = res[:nb]
    recs, summ = [], []
    for r in res[nb:]:
        s = r.of("summary")
        if not s:
            raise vf.Infra("control replay harness produced no summary:\n" + r.out[-3000:])
        summ.append(s[0])
        recs.extend(r.records)
    total = {k: sum(s[k] for s in summ) for k in ("paths", "steps", "viol", "diverged", "worlds")}
    if total["paths"] != len(paths):
        raise vf.Infra("replayed %d of %d paths" % (total["paths"], len(paths)))
    st = [r for r in recs if r.get("k") == "stress"]
    if not st:
        raise vf.Infra("stress harness produced no record")
    return {"paths": paths, "nodes": nnodes, "edges": nedges, "total": total, "stress": st[0],
            "mismatches": [r for r in recs if r.get("k") == "mismatch"],
            "outcomes": [r for r in recs if r.get("k") == "outcome"],
            "scenarios": [r for r in recs if r.get("k") == "scenario"]}


def obs_of(state):
    """observable part of a projected state: results returned to callers and, per link, whose request / whose
    answer is travelling (no identifiers)"""
    return vf.canon({"done": sorted([d["a"], d.get("tgt"), d["who"]] for d in state.get("done", [])),
                     "q": {l: [[f["k"], f["who"]] for f in fs] for l, fs in state.get("q", {}).items()}})


def classify(ctx, mdl, mismatches):
    """Which deviation explains an observable mismatch (s, a, real t)?  The relation of each Dev = {d} instance is
    emitted (only when there is something to classify) and searched for a transition with the same observable
    pre-state, the same scheduling step and the observable post-state the code produced."""
    if not mismatches:
        return {}
    rel = {}
    for d in DEVS:
        if d not in ("DevForwardTableKeyedByIdOnly", "DevOwnPendingSwallowsRelayed"):
            continue
        r = ctx.tlc("Control", "MCrel.cfg", files={"MCrel.cfg": cfg(mdl["askers"], *mdl["small"], dev=[d], emit=True, invs="")},
                    name="Control-rel-" + d)
        rel[d] = set((obs_of(e["s"]), sched_key(e["a"]), obs_of(e["t"])) for e in r.edges)
    out = {}
    for i, mm in enumerate(mismatches):
        if "s" not in mm or "real_t" not in mm:
            continue
        k = (obs_of(mm["s"]), sched_key(mm["a"]), obs_of(mm["real_t"]))
        # the more specific deviation first: an own pending request swallowing a relayed response
        for d in ("DevOwnPendingSwallowsRelayed", "DevForwardTableKeyedByIdOnly"):
            if k in rel[d]:
                out[i] = d
                break
    return out


def sched_key(a):
    """what the scheduler did: which caller asked whom / which link's head frame was processed (the name of the
    handler branch the spec took is not part of it)"""
    if a.get("act") in ("CtlRequest", "CtlCancel"):
        return vf.canon({"act": a["act"], "a": a.get("a"), "tgt": a.get("tgt")})
    return vf.canon({"deliver": [a.get("from"), a.get("at")]})


def describe_outcome(o):
    return "%s asked %s (request %s): %s" % (o["a"], o["tgt"], o["id"],
                                             "no response, network quiet" if o["res"] == "lost" else "got the answer of " + o["res"])


def report(ctx, mdl, rp):
    """Turn what the real agents did into findings."""
    n = 0
    # 1. seed scenarios of the deviations (TLC counterexamples driven through the real mesh)
    for sc in rp["scenarios"]:
        bad = [o for o in sc["outcome"] if not o["good"]]
        if bad:
            d = sc["name"]
            ctx.finding("Control:%s:%s" % (d, SITE[d]),
                        "schedule of TLC's counterexample for %s on real agents: %s" % (d, "; ".join(describe_outcome(o) for o in bad)),
                        {"scenario": sc})
            n += 1
    # 2. replay of the ideal relation: observable mismatches and bad outcomes
    viol = [m for m in rp["mismatches"] if m.get("class") == "viol"]
    expl = classify(ctx, mdl, viol)
    for i, mm in enumerate(viol):
        d = expl.get(i)
        a = mm.get("a", {})
        if d:
            key = "Control:%s:%s" % (d, SITE[d])
        else:
            key = "Control:unexplained:%s:%s" % (a.get("act"), ",".join(mm.get("fields", [])))
        ctx.finding(key, "replay step %s at %s: observable state differs from the spec in %s (spec %s, real %s)" % (
            a.get("act"), a.get("at") or a.get("a"), mm.get("fields"), obs_of(mm.get("spec_t", {})), obs_of(mm.get("real_t", {}))), mm)
        n += 1
    stopped = set(m.get("path") for m in viol)
    for oc in rp["outcomes"]:
        if oc.get("path") in stopped:
            continue        # consequence of the mismatch already reported for this path
        o = oc["bad"]
        key = "Control:outcome:%s" % ("lost" if o["res"] == "lost" else "wrong-answer")
        ctx.finding(key, "after replaying a TLC path and letting the network run dry: " + describe_outcome(o), oc)
        n += 1
    return n
