# DatagramSession.tla <-> internal/udp Handler, internal/icmp Handler   (G02: specification growth)
import json, os, subprocess
from concurrent.futures import ThreadPoolExecutor
import vf, _replay as R

MODULE = "DatagramSession"
INVS = "TypeOK CountMatches OneRecordOneSocket QuiescentEmpty CloseNotifyOnce OpenAnswered NoClearText FreshNotExpired"
PROPS = "NoRelayUnlessLive ReplyToRequester"
HFILES = {"udp": ["common/common_test.go.tmpl", "udp/dgcore_test.go.tmpl", "udp/dgsession_test.go"],
          "icmp": ["common/common_test.go.tmpl", "udp/dgcore_test.go.tmpl", "icmp/dgsession_test.go"]}
SITE = {
    "udp": {"DevKeyedByStreamIdOnly": "udp.Handler.associations", "DevLimitCheckThenAct": "udp.Handler.HandleUDPOpen",
            "DevEmitAfterCloseInClear": "udp.Handler.readLoop"},
    "icmp": {"DevKeyedByStreamIdOnly": "icmp.Handler.sessions", "DevLimitCheckThenAct": "icmp.Handler.HandleICMPOpen",
             "DevEmitAfterCloseInClear": "icmp.Handler.waitForReply"},
}
GENERIC_SITE = {"udp": "udp.Handler", "icmp": "icmp.Handler"}


def S(*xs):
    return "{%s}" % ",".join('"%s"' % x for x in xs)


def B(v):
    return "TRUE" if v else "FALSE"


def consts(kind, slots, full, gone, modes, mx, maxdg, maxerr, worlds=(True,), split=False):
    return {"Kind": '"%s"' % kind, "Slots": S(*slots), "FullSlots": S(*full), "GoneP": S(*gone), "Split": B(split),
            "Modes": S(*modes), "Max": mx, "MaxDg": maxdg, "MaxErr": maxerr,
            "Worlds": "{%s}" % ",".join(B(w) for w in worlds)}


# every deviation with a bounded instance in which TLC must catch it, and the property that catches it
def dev_cfgs(kind):
    two = lambda **kw: consts(kind, ("A1", "B1"), ("A1",), ("A",), ("enc", "badkey"), kw.get("mx", 2), 1, 1,
                              split=kw.get("split", False))
    return {
        "DevKeyedByStreamIdOnly": (two(), "CountMatches"),
        "DevCounterNotDecrementedOnErr": (two(), "CountMatches"),
        "DevCloseTwiceNotifiesTwice": (two(), "CloseNotifyOnce"),
        "DevIdleCleanupKeepsRecord": (two(), "CountMatches"),
        "DevDatagramAfterClose": (two(), "NoRelayUnlessLive"),
        "DevLimitCheckThenAct": (two(mx=1), "CountMatches"),
        "DevReplyToWrongAssociation": (two(), "ReplyToRequester") if kind == "udp" else None,
        "DevCloseNotifiesWrongPeer": (two(), "CloseNotifyOnce"),
        "DevErrKeepsSocket": (two(), "OneRecordOneSocket"),
        "DevEmitAfterCloseInClear": (consts(kind, ("A1", "B3"), ("A1",), ("A",), ("enc",), 2, 2, 0, split=True), None),
        "DevRemoveKeepsRequestIndex": (two(), "OneRecordOneSocket"),
        "DevCloseAnsweredWithClose": (two(), "CloseNotifyOnce"),
        "DevDatagramDoesNotRefreshActivity": (two(), "FreshNotExpired"),
    }


def replay_cfgs(ctx, kind):
    """bounded instances whose whole transition relation is replayed on the real handler: name -> constants"""
    q = ctx.quick()
    out = {
        # limit reached with one session; every kind of open, datagrams both ways, peer loss, both Enabled worlds
        "lim1": consts(kind, ("A1", "B3"), ("A1",), ("A",), ("enc", "badkey", "nosock"), 1, 1 if q else 2, 1, (True, False)),
        # two live sessions of two peers: counter, cleanup of both, close isolation, handler close
        "two": consts(kind, ("A1", "B3"), () if q else ("B3",), ("B",), ("enc",), 2, 0 if q else 1, 0),
        # no ephemeral key: the session runs unencrypted
        "plain": consts(kind, ("A1",), ("A1",), ("A",), ("plain",), 1, 2, 1),
    }
    if not q and kind == "udp":
        # three slots, two of one peer: the limit is reached with two live sessions
        out["three"] = consts(kind, ("A1", "A2", "B3"), (), ("A",), ("enc",), 2, 0, 1)
    return out


def collide_cfg(ctx, kind):
    """two peers using the same stream id (the handler keys its table by the bare id: known finding of C16/C17)"""
    if ctx.quick():
        return consts(kind, ("A1", "B1"), (), (), ("enc",), 2, 0, 0)
    return consts(kind, ("A1", "B1"), ("A1",), (), ("enc",), 2, 1, 0)


def split_cfg(kind):
    return consts(kind, ("A1", "B3"), ("A1",), ("A",), ("enc",), 2, 2, 0, split=True)


def trace_consts(kind, slots, mx):
    return consts(kind, slots, slots, ("A", "B"), ("enc", "plain", "badkey", "nosock"), mx, 1000000, 1000000, (True, False))


def is_init(t):
    return (t["hup"] and all(t["peerUp"].values()) and t["ndg"] == 0 and t["nerr"] == 0
            and all(v == "None" for v in t["obj"].values()) and all(v == "None" for v in t["life"].values()))


def base_act(a):
    return {k: a.get(k) for k in ("act", "s", "m")}


def proj(t):
    live = ("Opening", "Open")
    return {"look": t["look"], "byreq": t["byreq"], "obj": t["obj"], "sock": t["sock"], "nsock": t["nsock"],
            "exp": {s: bool(v and t["obj"][s] in live) for s, v in t["exp"].items()}, "count": t["count"],
            "ackN": t["ackN"], "errN": t["errN"], "closeN": t["closeN"], "din": t["din"], "dout": t["dout"], "bad": 0,
            "enabled": False}


def same_result(a, mm):
    return a.get("res") == mm.get("real_res")


def slots_of(c):
    return [x.strip('"') for x in c["Slots"].strip("{}").split(",") if x]


# ------------------------------------------------------------------------------------------------------ TLC jobs
def tlc_jobs(ctx, kinds):
    """-> (jobs, index): ideal relations (edges emitted), the bare-id relation of the collision instance, the split
    instance, one run per deviation.  quick: the icmp instance of the module gets the main relation and the collision
    pair only (every TLC launch costs a JVM start)."""
    jobs, index = [], []
    q = ctx.quick()
    for kind in kinds:
        for name, c in replay_cfgs(ctx, kind).items():
            if q and kind == "icmp" and name != "lim1":
                continue
            jobs.append(dict(module=MODULE, name="%s_%s" % (kind, name), workers=4 if name in ("lim1", "three") else 1,
                             heap="6g", cfg=R.cfg_text(c, emit=True, invs=INVS, props=PROPS)))
            index.append(("ideal", kind, name, c))
        c = collide_cfg(ctx, kind)
        jobs.append(dict(module=MODULE, name="%s_collide" % kind, workers=1, cfg=R.cfg_text(c, emit=True, invs=INVS, props=PROPS)))
        index.append(("collide", kind, "collide", c))
        jobs.append(dict(module=MODULE, name="%s_collideById" % kind, workers=1,
                         cfg=R.cfg_text(c, dev=["DevKeyedByStreamIdOnly"], emit=True)))
        index.append(("byid", kind, "collideById", c))
        if not (q and kind == "icmp"):
            jobs.append(dict(module=MODULE, name="%s_split" % kind, workers=1,
                             cfg=R.cfg_text(split_cfg(kind), emit=False, invs=INVS, props=PROPS)))
            index.append(("split", kind, "split", split_cfg(kind)))
    # the deviations are checked on the udp instance (same module; the icmp instance differs in DgIn/DgOut only), the two
    # deviations of the return path on both (thorough)
    for d, v in dev_cfgs("udp").items():
        if v is None:
            continue
        jobs.append(dict(module=MODULE, name="dev_udp_" + d, workers=1, expect_violation=True,
                         cfg=R.cfg_text(v[0], dev=[d], emit=False, invs=INVS, props=PROPS)))
        index.append(("dev", "udp", d, v))
    if "icmp" in kinds and not q:
        for d in ("DevEmitAfterCloseInClear", "DevDatagramAfterClose"):
            v = dev_cfgs("icmp")[d]
            jobs.append(dict(module=MODULE, name="dev_icmp_" + d, workers=1, expect_violation=True,
                             cfg=R.cfg_text(v[0], dev=[d], emit=False, invs=INVS, props=PROPS)))
            index.append(("dev", "icmp", d, v))
    return jobs, index


def tlc_all(ctx, jobs):
    """two pools of R.tlc_many side by side (the runs are JVM start-up dominated on a loaded machine)"""
    a, b = jobs[0::2], jobs[1::2]
    with ThreadPoolExecutor(max_workers=2) as ex:
        fa, fb = ex.submit(R.tlc_many, ctx, a), ex.submit(R.tlc_many, ctx, b) if b else None
        ra, rb = fa.result(), (fb.result() if fb else [])
    out = []
    for i in range(len(jobs)):
        out.append(ra[i // 2] if i % 2 == 0 else rb[i // 2])
    return out


def check_model(index, results):
    """the ideal instances must hold; every deviation must be caught (by the expected property)"""
    caught = {}
    for (what, kind, name, c), r in zip(index, results):
        if what in ("ideal", "collide", "split"):
            if r.violated:
                raise vf.Infra("ideal DatagramSession instance %s/%s violates %s (specification error)" % (kind, name, r.violated))
        elif what == "dev":
            want = c[1]
            if not r.violated or (want and r.violated != want):
                raise vf.Infra("deviation %s (%s): TLC reported %s, expected a violation%s" % (
                    name, kind, r.violated, (" of " + want) if want else ""))
            caught["%s/%s" % (kind, name)] = r.violated
    return caught


# ------------------------------------------------------------------------------------------------------ netns
NS_SETUP = 'echo "0 2147483647" > /proc/sys/net/ipv4/ping_group_range && ip link set lo up && exec "$@"'


def netns_prefix():
    """The icmp handler needs unprivileged ICMP sockets (net.ipv4.ping_group_range is "1 0" here).  In a private
    network namespace the range can be opened without touching anything outside.  -> (prefix, env) or (None, reason)"""
    if os.environ.get("ZZV_NO_NETNS"):
        return None, "private network namespace disabled by ZZV_NO_NETNS"
    try:
        p = subprocess.run(["unshare", "-n", "sh", "-c", NS_SETUP, "sh", "true"], stdout=subprocess.PIPE,
                           stderr=subprocess.STDOUT, timeout=30)
        if p.returncode != 0:
            return None, "unshare -n failed: %s" % p.stdout.decode(errors="replace")[-200:]
    except Exception as e:
        return None, "unshare -n not available: %s" % e
    return ["unshare", "-n", "sh", "-c", NS_SETUP, "sh"], None


# ------------------------------------------------------------------------------------------------------ replay
def run_docs(ctx, binpath, docs, tag, nproc, prefix=None, env=None, timeout=1500):
    """docs: list of {"consts":..., "states":..., "paths":...}; the paths are dealt round-robin over nproc processes"""
    parts = [[] for _ in range(nproc)]
    k = 0
    for d in docs:
        chunks = [{"consts": d["consts"], "states": d["states"], "paths": []} for _ in range(nproc)]
        for p in d["paths"]:
            chunks[k % nproc]["paths"].append(p)
            k += 1
        for i, c in enumerate(chunks):
            if c["paths"]:
                parts[i].append(c)
    files = []
    for i, p in enumerate(parts):
        if not p:
            continue
        fn = os.path.join(ctx.work, "%s_%d.json" % (tag, i))
        vf.write_json(fn, {"docs": p})
        files.append(fn)

    def one(fn):
        e = {"ZZV_IN": fn}
        e.update(env or {})
        return R.run_test_binary(ctx, binpath, "^TestZZVDgReplay$", env=e, timeout=timeout, quiet=True, prefix=prefix)

    with ThreadPoolExecutor(max_workers=max(1, len(files))) as ex:
        results = list(ex.map(one, files))
    summ, mism = [], []
    for r in results:
        s = r.of("summary")
        if r.rc != 0 or not s:
            raise vf.Infra("replay harness %s failed rc=%s:\n%s" % (tag, r.rc, "\n".join(r.out.splitlines()[-40:])))
        summ.append(s[0])
        mism.extend(r.of("mismatch"))
    ctx.log("replay %s: %d processes, %d paths, %d steps, %d mismatches, %.1fs" % (
        tag, len(files), R.total(summ, "paths"), R.total(summ, "steps"), len(mism), max(r.wall for r in results)))
    return summ, mism


def make_doc(kind, name, c, edges, mx):
    doc, npaths, nnodes, nedges, nsteps = R.compact_paths(edges, is_init, max_len=120)
    doc["consts"] = {"kind": kind, "slots": slots_of(c), "max": mx, "name": name}
    return doc, npaths, nnodes, nedges, nsteps


def describe(mm):
    sched = " ".join("%s(%s%s)" % (x.get("act"), x.get("s"), ("," + x["m"]) if x.get("m") not in (None, "-") else "")
                     for x in mm.get("prefix", []))
    return ("%s handler, history [%s]: specification -> result %s, state %s ; real code -> result %s, state %s%s" % (
        mm.get("kind"), sched, mm.get("spec_res"), vf.canon(mm.get("spec_proj")), mm.get("real_res"),
        vf.canon(mm.get("real_t")), (" ; harness notes: %s" % mm["notes"]) if mm.get("notes") else ""))


# ------------------------------------------------------------------------------------------------------ traces
def trace_cfg(c):
    cc = " ".join("%s = %s" % (k, v) for k, v in c.items())
    return ("CONSTANTS %s Dev = {} Emit = FALSE\nINIT TraceInit\nNEXT TraceNext\nCONSTRAINT HighWater\n"
            "INVARIANTS CountMatches OneRecordOneSocket QuiescentEmpty CloseNotifyOnce OpenAnswered NoClearText FreshNotExpired\n"
            "POSTCONDITION TraceAccepted\n" % cc)


def run_traces(ctx, kind, binpath, prefix, env, slots, mx, nhist, hlen, tag):
    out = os.path.join(ctx.work, "%s_%s.ndjson" % (tag, kind))
    e = dict(env or {})
    e.update({"ZZV_OUT": out, "ZZV_HISTORIES": nhist, "ZZV_HLEN": hlen, "ZZV_MAX": mx, "ZZV_SLOTS": ",".join(slots),
              "ZZV_CORRUPT": os.environ.get("VERIF_CORRUPT_TRACE", "0")})
    r = R.run_test_binary(ctx, binpath, "^TestZZVDgTrace$", env=e, prefix=prefix, timeout=1500)
    summ = r.of("summary")
    if r.rc != 0 or not summ:
        raise vf.Infra("trace harness (%s) failed rc=%s:\n%s" % (kind, r.rc, "\n".join(r.out.splitlines()[-40:])))
    cfgname = "Trace_%s_%s.cfg" % (tag, kind)
    res = ctx.tlc("TraceDatagramSession", cfgname, files={cfgname: trace_cfg(trace_consts(kind, slots, mx))}, workers=1,
                  env={"TRACE_FILE": out}, expect_violation=True, tags=("HW", "LEN"), name="trace_" + kind, dump_trace=False)
    hw = [o for t, o in res.prints if t == "HW"]
    ln = [o for t, o in res.prints if t == "LEN"]
    events = []
    with open(out) as f:
        for line in f:
            if line.strip():
                events.append(json.loads(line))
    if res.violated and res.violated != "postcondition":
        return summ[0], {"accepted": False, "violated": res.violated, "hw": hw[-1] if hw else None, "events": events}
    if not hw or not ln:
        raise vf.Infra("trace validation did not reach its postcondition:\n" + res.out[-3000:])
    return summ[0], {"accepted": hw[-1] == ln[-1] + 1, "violated": None, "hw": hw[-1], "len": ln[-1], "events": events}


def history_of(events, hw):
    """the history (from its Reset) that contains event number hw (1-based), cut after that event"""
    i = max(0, min(hw, len(events)) - 1)
    j = i
    while j > 0 and events[j]["ev"] != "Reset":
        j -= 1
    return events[j:i + 1]


# ------------------------------------------------------------------------------------------------------ classification
def class_cfg(c, dev):
    """trace cfg for re-validating one observed history with exactly one deviation enabled (DESIGN 1.6): the instance's
    slots and maximum, every environment restriction lifted, no invariants (the deviation breaks them by design)"""
    cc = dict(c)
    cc.update({"FullSlots": c["Slots"], "GoneP": S("A", "B"), "Modes": S("enc", "plain", "badkey", "nosock"),
               "MaxDg": 1000000, "MaxErr": 1000000, "Worlds": "{TRUE,FALSE}", "Split": "FALSE"})
    return ("CONSTANTS %s Dev = {%s} Emit = FALSE\nINIT TraceInit\nNEXT TraceNext\nCONSTRAINT HighWater\n"
            "POSTCONDITION TraceAccepted\n" % (" ".join("%s = %s" % kv for kv in cc.items()),
                                               ",".join('"%s"' % d for d in dev)))


def history_events(doc, mm):
    """the history of a replay mismatch as trace events: the specification's projected states for the steps that matched,
    the REAL result and state for the last one"""
    st = doc["states"]
    init = st[mm["init"]]
    ev = [{"ev": "Reset", "enabled": init["enabled"], "st": proj(init)}]
    n = len(mm["prefix"])
    for i, (a, ti) in enumerate(zip(mm["prefix"], mm["prefix_t"])):
        last = i == n - 1
        ev.append({"ev": a["act"], "s": a["s"], "m": a["m"], "res": mm["real_res"] if last else a["res"],
                   "st": mm["real_t"] if last else proj(st[ti])})
    return ev


def accepted_by(ctx, tag, c, events, devsets):
    """-> {name: bool}: is the recorded history a behaviour of the specification with the deviations devsets[name]?
    One small TLC run per entry, side by side."""
    import glob, shutil, re, time
    path = os.path.join(ctx.work, "cls_%s.ndjson" % tag)
    vf.write_ndjson(path, events)

    def one(item):
        name, dev = item
        d = ctx.scratch("cls_%s_%s" % (tag, name))
        for f in glob.glob(os.path.join(vf.SPEC, "*DatagramSession*")):
            shutil.copy(f, d)
        with open(os.path.join(d, "MC.cfg"), "w") as f:
            f.write(class_cfg(c, dev))
        e = dict(os.environ)
        e.pop("JAVA_TOOL_OPTIONS", None)
        e["TRACE_FILE"] = path
        cmd = ["java", "-XX:+UseParallelGC", "-Xss64m", "-Xmx2g", "-cp", vf.TLA_CP, "tlc2.TLC", "-config", "MC.cfg",
               "-metadir", os.path.join(d, "states"), "-workers", "1", "-noGenerateSpecTE", "-deadlock",
               "TraceDatagramSession.tla"]
        try:
            p = subprocess.run(cmd, cwd=d, env=e, stdout=subprocess.PIPE, stderr=subprocess.STDOUT, timeout=900, text=True,
                               errors="replace")
        except subprocess.TimeoutExpired:
            raise vf.Infra("TLC timeout while classifying a mismatch (%s)" % name)
        hw = re.findall(r'^"HW (\d+)"$', p.stdout, re.M)
        ln = re.findall(r'^"LEN (\d+)"$', p.stdout, re.M)
        if not hw or not ln:
            raise vf.Infra("classification run %s did not reach its postcondition:\n%s" % (name, p.stdout[-2000:]))
        return name, int(hw[-1]) == int(ln[-1]) + 1

    with ThreadPoolExecutor(max_workers=min(12, len(devsets))) as ex:
        return dict(ex.map(one, list(devsets.items())))


CLASS_DEVS = ["DevCounterNotDecrementedOnErr", "DevCloseTwiceNotifiesTwice", "DevIdleCleanupKeepsRecord",
              "DevDatagramAfterClose", "DevLimitCheckThenAct", "DevReplyToWrongAssociation", "DevCloseNotifiesWrongPeer",
              "DevErrKeepsSocket", "DevKeyedByStreamIdOnly", "DevRemoveKeepsRequestIndex", "DevCloseAnsweredWithClose",
              "DevDatagramDoesNotRefreshActivity"]


def classify(ctx, tag, c, doc, mm):
    """deviations under which the real behaviour of the mismatch is a behaviour of the specification ([] = none; the
    ideal specification is asked too: if IT accepts the history the mismatch is a replay artefact -> Infra)"""
    ev = history_events(doc, mm)
    sets = {"ideal": []}
    sets.update({d: [d] for d in CLASS_DEVS})
    acc = accepted_by(ctx, tag, c, ev, sets)
    if acc.get("ideal"):
        raise vf.Infra("replay mismatch whose history the ideal specification accepts (harness / cover error): %s" % describe(mm))
    return [d for d in CLASS_DEVS if acc.get(d)]
