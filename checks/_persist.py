# Persist.tla <-> identity.LoadOrCreate / LoadOrCreateKeypair / sleep.Manager persistState+LoadState   (C34, engine E6)
#
# A path of the specification's transition graph is a sequence of agent PROCESSES (start-up, sleep-state saves) that end
# by Crash, Exit or a failed start.  Every process is executed for real: the helper test binary
# (harness/identity/persist_test.go) runs under
#     strace -f -y -P <data dir and its 8 files> -e trace=<fs calls> [-e inject=<call>:signal=KILL:when=<n>]
# so that it dies on entry of exactly the file-system call at which the specification's Crash happens (injection
# counters are per syscall name and -P restricts them to calls touching the data-dir files).  After every process
#   * the strace log (ordered file-system calls on the data-dir files) must equal the specification's Step sequence,
#   * the data directory is projected (file -> absent / empty / value) and must equal the specification's disk,
#   * what the process returned (identity, key pair, loaded sleep state, success) must equal the specification's `mem`.
# Identities / keys are random: abstract values "g<n>" are bound to the real strings at first observation.
import json, os, re, shutil, subprocess, threading, time
from concurrent.futures import ThreadPoolExecutor
import vf, _replay as R

MODULE = "Persist"
INVS = "RestartSucceeds IdentityKept KeyPairConsistent SleepBeforeOrAfter FinalFilesWhole"
DEVS = ["DevInPlaceWrite", "DevIdInPlace", "DevPubMissingFatal"]
DEV_CAUGHT_BY = {"DevInPlaceWrite": "SleepBeforeOrAfter", "DevIdInPlace": "RestartSucceeds",
                 "DevPubMissingFatal": "RestartSucceeds"}
STATEMENT_INVS = "RestartSucceeds IdentityKept KeyPairConsistent SleepBeforeOrAfter"
SITE = {"DevInPlaceWrite": "sleep.Manager.persistState", "DevIdInPlace": "identity.AgentID.Store",
        "DevPubMissingFatal": "identity.LoadOrCreateKeypair"}
HFILES = ["identity/persist_test.go"]
FILES = {"dir": None, "id": "agent_id", "idtmp": "agent_id.tmp", "key": "agent_key", "keytmp": "agent_key.tmp",
         "pub": "agent_key.pub", "pubtmp": "agent_key.pub.tmp", "ss": "sleep_state.json", "sstmp": "sleep_state.json.tmp"}
BYNAME = {v: k for k, v in FILES.items() if v}
SYSCALL = {"Read": "openat", "OpenTrunc": "openat", "Write": "write", "Rename": "renameat", "Mkdir": "mkdirat",
           "Remove": "unlinkat"}
TRACE = "openat,open,creat,write,pwrite64,writev,rename,renameat,renameat2,mkdir,mkdirat,unlink,unlinkat,rmdir," \
        "truncate,ftruncate,link,linkat,symlink,symlinkat"
SLEEPNAMES = {0: "AWAKE", 1: "SLEEPING", 2: "POLLING"}


def consts(ctx):
    return ({"MaxCrashes": 2, "MaxSaves": 2, "MaxExits": 1} if ctx.quick()
            else {"MaxCrashes": 3, "MaxSaves": 3, "MaxExits": 2})


def is_init(s):
    return (s["pc"] == "none" and s["crashes"] == 0 and s["exits"] == 0 and s["saves"] == 0 and s["nid"] == 0
            and s["nkey"] == 0 and all(v == "absent" for v in s["disk"].values()) and not s["failed"])


def model(ctx):
    c = consts(ctx)
    small = {"MaxCrashes": 2, "MaxSaves": 2, "MaxExits": 1}
    jobs = [dict(module=MODULE, name="ideal", workers=2, cfg=R.cfg_text(c, emit=True, invs=INVS))]
    for d in DEVS:
        jobs.append(dict(module=MODULE, name="dev" + d, workers=1, expect_violation=True,
                         cfg=R.cfg_text(small, dev=[d], emit=False, invs=STATEMENT_INVS)))
    res = R.tlc_many(ctx, jobs)
    ideal = res[0]
    if ideal.violated:
        raise vf.Infra("ideal Persist spec violates %s (specification error)" % ideal.violated)
    caught, cex = {}, {}
    for d, r in zip(DEVS, res[1:]):
        caught[d] = r.violated
        cex[d] = r.trace
        if r.violated != DEV_CAUGHT_BY[d]:
            raise vf.Infra("deviation %s: TLC reported %s, expected a violation of %s (vacuous model?)" % (
                d, r.violated, DEV_CAUGHT_BY[d]))
    return c, ideal, caught, cex


# --------------------------------------------------------------------------- X25519 (public key of a private key)
_P = 2 ** 255 - 19
_A24 = 121665


def x25519_base(priv_hex):
    k = bytearray(bytes.fromhex(priv_hex))
    k[0] &= 248
    k[31] &= 127
    k[31] |= 64
    n = int.from_bytes(k, "little")
    x1, x2, z2, x3, z3, swap = 9, 1, 0, 9, 1, 0
    for t in range(254, -1, -1):
        kt = (n >> t) & 1
        swap ^= kt
        if swap:
            x2, x3, z2, z3 = x3, x2, z3, z2
        swap = kt
        a, b = (x2 + z2) % _P, (x2 - z2) % _P
        aa, bb = a * a % _P, b * b % _P
        e = (aa - bb) % _P
        c, d = (x3 + z3) % _P, (x3 - z3) % _P
        da, cb = d * a % _P, c * b % _P
        x3 = (da + cb) ** 2 % _P
        z3 = x1 * (da - cb) ** 2 % _P
        x2 = aa * bb % _P
        z2 = e * (aa + _A24 * e) % _P
    if swap:
        x2, x3, z2, z3 = x3, x2, z3, z2
    return (x2 * pow(z2, _P - 2, _P) % _P).to_bytes(32, "little").hex()


# --------------------------------------------------------------------------- paths -> processes
def split_runs(path):
    """-> list of runs; run = dict(start=state before Begin, steps=[{a,t}], end="crash"|"exit"|"fail"|"open")"""
    runs, cur, prev = [], None, path["init"]
    for st in path["steps"]:
        a = st["a"]
        if a["act"] == "Begin":
            cur = {"start": prev, "steps": [], "end": "open"}
            runs.append(cur)
        if cur is None:
            raise vf.Infra("path does not start with a process start")
        cur["steps"].append({"a": a, "s": prev, "t": st["t"]})
        if a["act"] == "Crash":
            cur["end"], cur = "crash", None
        elif a["act"] == "Exit":
            cur["end"], cur = "exit", None
        elif a["act"] == "Step" and st["t"]["pc"] == "none":
            cur["end"], cur = "fail", None
        prev = st["t"]
    return runs


def run_key(run):
    return vf.canon([s["a"] for s in run["steps"]] + [run["end"]])


def save_ops(run):
    ops = []
    for s in run["steps"]:
        if s["a"]["act"] == "SaveBegin":
            x, cur = s["a"]["op"], s["s"]["mem"]["sleep"]
            ops.append("sleep" if cur == "AWAKE" else ("wake" if x == "AWAKE" else "poll"))
    return ops


class Executor:
    def __init__(self, ctx, binpath, edges, tag):
        self.ctx, self.bin, self.tag = ctx, binpath, tag
        self.next_step = {}
        for e in edges:
            if e["a"]["act"] == "Step":
                self.next_step[vf.canon(e["s"])] = e
        self.base = ctx.scratch("persist_" + tag)
        self.lock = threading.Lock()
        self.seq = 0
        # VERIF_CORRUPT=<n>: self-test of the binding - the expected content of agent_id after the n-th process is falsified
        self.corrupt = int(os.environ.get("VERIF_CORRUPT", "0") or 0)
        self.mismatches, self.samples = [], []
        self.stats = {"processes": 0, "killed": 0, "restarts_after_kill": 0, "syscalls_matched": 0, "skipped_runs": 0}
        self.crash_states = set()       # distinct projected data directories observed after a kill
        self.kill_points = set()        # distinct (spec pc, disk) crash points exercised

    # ---- one real process -------------------------------------------------------------------------------------
    def strace(self, d, ops, kill):
        data = os.path.join(d, "data")
        log = os.path.join(d, "strace.%d.log" % time.monotonic_ns())
        cmd = ["strace", "-f", "-y", "-o", log, "-e", "signal=none", "-e", "trace=" + TRACE]
        if kill:
            cmd += ["-e", "inject=%s:signal=KILL:when=%d" % kill]
        cmd += ["-P", data]
        for f in FILES.values():
            if f:
                cmd += ["-P", os.path.join(data, f)]
        cmd += [self.bin, "-test.run", "^TestZZVPersistProc$", "-test.v", "-test.timeout", "60s"]
        env = dict(os.environ)
        env.update({"ZZV_DIR": data, "ZZV_OPS": ",".join(ops)})
        try:
            p = subprocess.run(cmd, cwd=d, env=env, stdout=subprocess.PIPE, stderr=subprocess.STDOUT, timeout=180,
                               text=True, errors="replace")
        except subprocess.TimeoutExpired:
            raise vf.Infra("helper process timeout under strace")
        recs = []
        for line in p.stdout.splitlines():
            i = line.find("ZZV {")
            if i >= 0:
                recs.append(json.loads(line[i + 4:]))
        try:
            with open(log) as f:
                lines = f.read().splitlines()
        except FileNotFoundError:
            raise vf.Infra("strace wrote no log (ptrace unavailable?):\n" + p.stdout[-2000:])
        calls = self.parse(lines, data)
        killed = any(c["killed"] for c in calls)
        if not killed and "zzv: done" not in p.stdout and not any(r.get("k") == "startfail" for r in recs):
            raise vf.Infra("helper neither finished nor was killed:\n%s\n%s" % (p.stdout[-1500:], "\n".join(lines[-10:])))
        return recs, calls, killed, p.stdout

    @staticmethod
    def parse(lines, data):
        """ordered data-dir file-system calls: [{op, f, g, killed, raw}]"""
        out = []
        open_calls = {}                       # pid -> entry of an <unfinished ...> call
        for ln in lines:
            r = re.match(r"^(\d+)\s+<\.\.\. \w+ resumed>(.*)$", ln)
            if r:
                c = open_calls.pop(r.group(1), None)
                if c is not None and r.group(2).rstrip().endswith("= ?"):
                    c["killed"] = True
                continue
            m = re.match(r"^(\d+)\s+(\w+)\((.*)$", ln)
            if not m or "<detached ...>" in ln:
                continue
            pid, name, rest = m.group(1), m.group(2), m.group(3)
            killed = rest.rstrip().endswith("= ?")
            paths = re.findall(r'"((?:[^"\\]|\\.)*)"', rest)
            fdp = re.findall(r"\d+<([^>]*)>", rest)

            def key(p):
                p = p.split(" (deleted)")[0]
                if os.path.normpath(p) == os.path.normpath(data):
                    return "dir"
                if os.path.dirname(os.path.normpath(p)) == os.path.normpath(data):
                    return BYNAME.get(os.path.basename(p), "other:" + os.path.basename(p))
                return None
            op, f, g = None, "-", "-"
            if name in ("openat", "open", "creat"):
                ks = [key(p) for p in paths[:1]]
                if not ks or ks[0] is None or "O_DIRECTORY" in rest:
                    continue
                f = ks[0]
                op = "OpenTrunc" if (name == "creat" or "O_TRUNC" in rest or "O_CREAT" in rest) else "Read"
            elif name in ("write", "pwrite64", "writev"):
                ks = [key(p) for p in fdp[:1]]
                if not ks or ks[0] is None:
                    continue
                op, f = "Write", ks[0]
            elif name in ("rename", "renameat", "renameat2", "link", "linkat"):
                ks = [key(p) for p in paths[:2]]
                if len(ks) < 2 or None in ks:
                    continue
                op, f, g = "Rename", ks[0], ks[1]
            elif name in ("mkdir", "mkdirat"):
                ks = [key(p) for p in paths[:1]]
                if not ks or ks[0] is None:
                    continue
                op, f = "Mkdir", ks[0]
            elif name in ("unlink", "unlinkat", "rmdir"):
                ks = [key(p) for p in paths[:1]]
                if not ks or ks[0] is None:
                    continue
                op, f = "Remove", ks[0]
            elif name in ("truncate", "ftruncate"):
                ks = [key(p) for p in (paths[:1] or fdp[:1])]
                if not ks or ks[0] is None:
                    continue
                op, f = "Truncate", ks[0]
            else:
                continue
            c = {"op": op, "f": f, "g": g, "killed": killed, "sys": name}
            if "<unfinished ...>" in rest:
                open_calls[pid] = c
            out.append(c)
        for c in open_calls.values():         # entered, never resumed: the process died in (= on entry of) this call
            c["killed"] = True
        return out

    # ---- projection of the data directory -----------------------------------------------------------------------
    @staticmethod
    def read_dir(d):
        data = os.path.join(d, "data")
        out = {"dir": "present" if os.path.isdir(data) else "absent"}
        for k, f in FILES.items():
            if not f:
                continue
            p = os.path.join(data, f)
            if not os.path.exists(p):
                out[k] = ("absent", None)
                continue
            with open(p, "rb") as fh:
                b = fh.read()
            out[k] = ("empty", None) if not b else ("full", b.decode("utf-8", "replace"))
        extra = sorted(set(os.listdir(data)) - set(v for v in FILES.values() if v)) if os.path.isdir(data) else []
        return out, extra

    @staticmethod
    def abstract(raw, bind, want):
        """raw projection -> abstract disk (values as in the spec); unbound generations are bound following `want`"""
        out, problems = {"dir": raw["dir"]}, []
        for k in ("id", "idtmp", "key", "keytmp", "pub", "pubtmp", "ss", "sstmp"):
            st, c = raw[k]
            if st != "full":
                out[k] = st
                continue
            c = c.strip()
            if k in ("ss", "sstmp"):
                try:
                    out[k] = SLEEPNAMES.get(json.loads(c).get("state"), "corrupt")
                except Exception:
                    out[k] = "corrupt"
                continue
            ns = "id" if k in ("id", "idtmp") else "key"
            if k in ("pub", "pubtmp"):
                g = [x for (n, x), v in bind.items() if n == "key" and x25519_base(v) == c]
                out[k] = g[0] if g else "unmatched-public-key"
                continue
            g = [x for (n, x), v in bind.items() if n == ns and v == c]
            if g:
                out[k] = g[0]
            elif re.match(r"^g\d+$", str(want.get(k, ""))) and (ns, want[k]) not in bind:
                bind[(ns, want[k])] = c
                out[k] = want[k]
            else:
                out[k] = "unknown-value"
        return out

    # ---- one run of a path ----------------------------------------------------------------------------------------
    def execute(self, run, parent_dir, bind):
        """returns (dir, bind, mismatch or None)"""
        ctx = self.ctx
        with self.lock:
            self.seq += 1
            myseq = self.seq
            d = os.path.join(self.base, "n%05d" % self.seq)
        if parent_dir and os.path.isdir(os.path.join(parent_dir, "data")):
            os.makedirs(d)
            shutil.copytree(os.path.join(parent_dir, "data"), os.path.join(d, "data"))
        else:
            os.makedirs(d)
        bind = dict(bind)
        steps = [s for s in run["steps"] if s["a"]["act"] == "Step"]
        spec_ops = [(s["a"]["op"], s["a"]["f"], s["a"]["g"]) for s in steps]
        last = run["steps"][-1]["t"]
        if self.corrupt and myseq == self.corrupt:
            last = dict(last, disk=dict(last["disk"], id="empty" if last["disk"]["id"] != "empty" else "absent"))
        kill, pending = None, None
        if run["end"] in ("crash", "open"):
            pre = run["steps"][-1]["s"] if run["end"] == "crash" else last
            nxt = self.next_step.get(vf.canon(pre))
            if nxt is not None and pre["pc"] not in ("none", "idle"):
                pending = (nxt["a"]["op"], nxt["a"]["f"], nxt["a"]["g"])
                name = SYSCALL[pending[0]]
                kill = (name, 1 + sum(1 for o in spec_ops if SYSCALL[o[0]] == name))
                self.kill_points.add((pre["pc"], vf.canon(pre["disk"])))
        ops = save_ops(run)
        recs, calls, killed, out = self.strace(d, ops, kill)
        with self.lock:
            self.stats["processes"] += 1
            self.stats["killed"] += 1 if killed else 0
            if run["start"]["crashes"] > 0:
                self.stats["restarts_after_kill"] += 1
        real_ops = [(c["op"], c["f"], c["g"]) for c in calls if not c["killed"]]
        real_pending = [(c["op"], c["f"], c["g"]) for c in calls if c["killed"]]
        raw, extra = self.read_dir(d)
        disk = self.abstract(raw, bind, last["disk"])
        mm = {"run": [s["a"] for s in run["steps"]], "end": run["end"], "start_state": run["start"], "ops_requested": ops,
              "kill": kill, "spec_calls": spec_ops, "real_calls": real_ops, "spec_pending": pending,
              "real_pending": real_pending[0] if real_pending else None, "spec_disk": last["disk"], "real_disk": disk,
              "unexpected_files": extra, "records": recs, "killed": killed, "dir": d, "parent_dir": parent_dir}
        why = []
        if [list(x) for x in real_ops] != [list(x) for x in spec_ops]:
            why.append("calls")
        if kill and not killed:
            why.append("crash-point-not-reached")
        if pending and real_pending and tuple(real_pending[0]) != tuple(pending):
            why.append("pending-call")
        if disk != last["disk"] or extra:
            why.append("disk")
        # what the process returned
        started = [r for r in recs if r.get("k") == "started"]
        fails = [r for r in recs if r.get("k") == "startfail"]
        saved = [r for r in recs if r.get("k") == "saved"]
        spec_started = [s for s in steps if s["s"]["pc"] == "S1"]
        mm["spec_started"] = bool(spec_started)
        if fails:
            mm["observed"] = "start-failed"
            if run["end"] != "fail":
                why.append("restart-fails:" + fails[0].get("stage", "?"))
        elif run["end"] == "fail":
            why.append("start-did-not-fail")
        if spec_started and not fails:
            t = spec_started[0]["t"]
            if not started:
                why.append("no-started-record")
            else:
                r = started[0]
                idg = [x for (n, x), v in bind.items() if n == "id" and v == r["id"]]
                keyg = [x for (n, x), v in bind.items() if n == "key" and v == r["priv"]]
                mm["returned"] = {"id": idg[0] if idg else "unknown-value", "key": keyg[0] if keyg else "unknown-value",
                                  "sleep": r["sleep"], "pub_matches_priv": r["pub_matches_priv"]}
                mm["spec_returned"] = {"id": t["mem"]["id"], "key": t["mem"]["key"], "sleep": t["mem"]["sleep"]}
                if not r["pub_matches_priv"] or x25519_base(r["priv"]) != r["pub"]:
                    why.append("keypair-mismatch")
                if mm["returned"]["id"] != t["mem"]["id"]:
                    stored = spec_started[0]["s"]["stored"]
                    why.append("identity-replaced" if stored != "-" and mm["returned"]["id"] != stored else "identity")
                if mm["returned"]["key"] != t["mem"]["key"]:
                    why.append("key")
                if r["sleep"] != t["mem"]["sleep"]:
                    ok = spec_started[0]["s"]["okSleep"]
                    why.append("sleep-state-lost" if r["sleep"] not in ok else "sleep")
        elif started and not spec_started:
            why.append("unexpected-started-record")
        done_saves = sum(1 for s in steps if s["s"]["pc"] in ("W2", "W3") and s["t"]["pc"] == "idle")
        if len(saved) != done_saves or any(r.get("err") for r in saved):
            why.append("saves")
        with self.lock:
            self.stats["syscalls_matched"] += len(real_ops) if "calls" not in why else 0
            if killed:
                self.crash_states.add(vf.canon(disk))
            if len(self.samples) < 4 and killed and run["start"]["crashes"] > 0:
                self.samples.append({"process": "start-up%s" % ("".join("," + o for o in ops)),
                                     "data_dir_before": run["start"]["disk"], "killed_on_entry_of": pending,
                                     "calls_completed": spec_ops, "data_dir_after": disk})
        if why:
            mm["why"] = why
            return d, bind, mm
        return d, bind, None

    # ---- specification-free probe of one process (used when the binding itself mismatches) ---------------------------
    def probe(self, mm, parent_dir):
        """Enumerate the crash points of this real process directly: reference strace run, then a kill at every one of
        its data-dir calls followed by a real restart.  Returns a list of (class, description) of statement violations
        seen on real processes: restart-fails / identity-replaced / keypair-mismatch / sleep-state-lost."""
        ops = mm["ops_requested"]
        base = os.path.join(self.base, "probe%d" % time.monotonic_ns())

        def fresh(name):
            d = os.path.join(base, name)
            os.makedirs(d)
            if parent_dir and os.path.isdir(os.path.join(parent_dir, "data")):
                shutil.copytree(os.path.join(parent_dir, "data"), os.path.join(d, "data"))
            return d
        # what a start-up sees before this process ever ran
        d0 = fresh("before")
        recs, _, _, _ = self.strace(d0, [], None)
        st0 = [r for r in recs if r.get("k") == "started"]
        if not st0:
            return [("restart-fails", "the start-up on the data dir before the process already fails: %s" % recs)]
        before = st0[0]
        acceptable = {before["sleep"]} | {"SLEEPING" if o in ("sleep", "poll") else "AWAKE" for o in ops}
        dref = fresh("ref")
        _, calls, _, _ = self.strace(dref, ops, None)
        found = []
        for k in range(len(calls)):
            name = calls[k]["sys"]
            kill = (name, sum(1 for c in calls[:k + 1] if c["sys"] == name))
            d = fresh("k%d" % k)
            r1, c1, killed, _ = self.strace(d, ops, kill)
            if not killed:
                continue
            returned = [r for r in r1 if r.get("k") == "started"]
            r2, _, _, _ = self.strace(d, [], None)
            with self.lock:
                self.stats["processes"] += 2
            st = [r for r in r2 if r.get("k") == "started"]
            at = "killed on entry of call #%d %s(%s) of [start-up%s]" % (k + 1, calls[k]["op"], calls[k]["f"],
                                                                         "".join("," + o for o in ops))
            if not st:
                f = [r for r in r2 if r.get("k") == "startfail"]
                found.append(("restart-fails:" + (f[0].get("stage", "?") if f else "?"),
                              "%s: the next start fails: %s" % (at, f[0].get("err") if f else r2)))
                continue
            s = st[0]
            if not s["pub_matches_priv"]:
                found.append(("keypair-mismatch", "%s: the next start returns a public key that does not match" % at))
            must = returned[0]["id"] if returned else (before["id"] if not before["id_created"] else None)
            if must and s["id"] != must:
                found.append(("identity-replaced", "%s: the next start returns identity %s instead of %s" % (at, s["id"], must)))
            if s["sleep"] not in acceptable:
                found.append(("sleep-state-lost", "%s: the next start loads sleep state %s, before/after were %s" % (
                    at, s["sleep"], sorted(acceptable))))
        shutil.rmtree(base, ignore_errors=True)
        return found

    # ---- all paths, sharing common prefixes of processes ----------------------------------------------------------
    def run_paths(self, paths, workers=6):
        root = {"children": {}, "dir": None, "bind": {}}
        nruns = 0
        for p in paths:
            node = root
            for run in split_runs(p):
                k = run_key(run)
                if k not in node["children"]:
                    node["children"][k] = {"run": run, "children": {}}
                    nruns += 1
                node = node["children"][k]
        level = [(root, c) for c in root["children"].values()]

        def count(n):
            return 1 + sum(count(c) for c in n["children"].values())

        def one(pc):
            parent, node = pc
            d, bind, mm = self.execute(node["run"], parent["dir"], parent["bind"])
            node["dir"], node["bind"] = d, bind
            return node, mm

        with ThreadPoolExecutor(max_workers=workers) as ex:
            while level:
                nxt = []
                for node, mm in ex.map(one, level):
                    if mm:
                        self.mismatches.append(mm)
                        self.stats["skipped_runs"] += count(node) - 1
                    else:
                        nxt.extend((node, c) for c in node["children"].values())
                level = nxt
        return nruns


def cex_path(trace):
    """TLC counterexample (-dumpTrace json) -> path {init, steps}"""
    sts = [x[1] for x in trace["counterexample"]["state"]]

    def st(v):
        s = {k: v[k] for k in ("disk", "pc", "mem", "nid", "nkey", "crashes", "saves", "exits", "stored", "okSleep",
                               "failed", "replaced", "wrongSleep", "badKey")}
        return s
    return {"init": st(sts[0]), "steps": [{"a": sts[i]["last"], "t": st(sts[i])} for i in range(1, len(sts))]}


def predicts(edges, mm):
    """Does this transition relation predict the file-system calls the real process made (completed calls followed by
    the call it died in), starting from the same state and performing the same saves?"""
    want = [list(x) for x in mm["real_calls"]] + ([list(mm["real_pending"])] if mm.get("real_pending") else [])
    nxt, save = {}, {}
    for e in edges:
        k = vf.canon(e["s"])
        if e["a"]["act"] in ("Step", "Begin"):
            nxt[k] = e
        elif e["a"]["act"] == "SaveBegin":
            save[(k, e["a"]["op"])] = e
    s = mm["start_state"]
    if vf.canon(s) not in nxt:
        return False
    cur = nxt[vf.canon(s)]["t"]
    got, saves = [], [a["op"] for a in mm["run"] if a["act"] == "SaveBegin"]
    while len(got) < len(want):
        k = vf.canon(cur)
        if cur["pc"] == "idle":
            if not saves or (k, saves[0]) not in save:
                return False
            cur = save[(k, saves.pop(0))]["t"]
            continue
        e = nxt.get(k)
        if e is None or e["a"]["act"] != "Step":
            return False
        got.append([e["a"]["op"], e["a"]["f"], e["a"]["g"]])
        cur = e["t"]
    return got == want


def explain(mm, dev_edges):
    return [d for d, edges in dev_edges.items() if predicts(edges, mm)]
