# Flood.tla <-> internal/flood Flooder + internal/routing tables   (C11 C12 C13 C14 C15, C06)
#
# Shared machinery of the six flood checks:
#   model(ctx, cfgs)        TLC on the ideal spec (Dev = {}) for every configuration, edges emitted
#   sensitivity(ctx, devs)  every named deviation must be caught by TLC on a small focused configuration
#   replay(ctx, runs)       path cover of every edge relation -> real Flooder/Manager network (harness/flood)
#   traces(ctx, ...)        random schedules of the real network -> TraceFlood.tla
#   report(ctx, pid, ...)   verdicts: (1) the property's own predicates evaluated on the REAL tables/frames,
#                           (2) spec/real differences and rejected traces, classified by deviation; a check reports
#                           only the classes that belong to its property (the others are reported by their owners)
import os, json, itertools
import vf

HFILES = ["common/common_test.go.tmpl", "flood/flood_net_test.go"]
# VERIF_SELFTEST=corrupt-replay | corrupt-trace : self-test of the binding (a falsified expected state / logged field
# must make the check report a violation, whatever the property)
SELFTEST = os.environ.get("VERIF_SELFTEST", "")
INVS = ("TypeOK ProcessedOnce ForwardedOnce MsgBound PathsSimple ChainsSimple PathsValid Converged MetricIsHops "
        "NearestPreferred Refreshed HopLimit PathIsDistance CountFits DecodedIntact Resynced")

# deviation -> (property it breaks, invariant expected to catch it)
DEV_OWNER = {
    "DevForwardKeepsReceivedMetric": "C13",
    "DevReplayUsesOwnSequence": "C14",
    "DevNoHopCheck": "C15",
    "DevCount8Wrap": "C06",
    "DevNoSeenMark": "C11",
    "DevForwardLooped": "C11",
    "DevNoPathPrepend": "C12",
    "DevPathCountWrap": "C15",
    "DevSeenBlocksResync": "C12",
}

A2, A3, A4 = ["a", "b"], ["a", "b", "c"], ["a", "b", "c", "d"]


def L(*pairs):
    return [sorted(p) for p in pairs]


def tla_set(xs):
    return "{" + ",".join(xs) + "}"


def tla_str(x):
    return '"%s"' % x


def tla_links(links):
    return tla_set(tla_set(tla_str(a) for a in l) for l in links)


def base(name, agents, links, **kw):
    c = dict(name=name, agents=agents, links=links, initups=[links], exits=[["a"]], routeids=["r1"], announcers=agents,
             maxann=1, hopsset=[16], cntmod=100, conn=0, disc=0, exp=0, dup=0, age=0, replay=True)
    c.update(kw)
    return c


def cfg_text(c, dev=(), emit=True, invs=INVS, trace=False):
    lines = ["CONSTANTS",
             " Agent = " + tla_set(tla_str(a) for a in c["agents"]),
             " Links = " + tla_links(c["links"]),
             " InitUps = " + tla_set(tla_links(u) for u in c["initups"]),
             " Exits = " + tla_set(tla_set(tla_str(a) for a in e) for e in c["exits"]),
             " RouteIds = " + tla_set(tla_str(r) for r in c["routeids"]),
             " HopsSet = " + tla_set(str(h) for h in c["hopsset"]),
             " Announcers = " + tla_set(tla_str(a) for a in c["announcers"]),
             " MaxAnn = %d" % c["maxann"],
             " CntMod = %d" % c["cntmod"],
             " ListMod = %d" % c.get("listmod", 256),
             " MaxConn = %d MaxDisc = %d MaxExpire = %d MaxDup = %d MaxAge = %d" % (c["conn"], c["disc"], c["exp"], c["dup"], c["age"]),
             " Dev = " + tla_set(tla_str(d) for d in dev),
             " Emit = %s" % ("TRUE" if emit else "FALSE")]
    if trace:
        lines += ["INIT TraceInit", "NEXT TraceNext", "CONSTRAINT HighWater", "POSTCONDITION TraceAccepted"]
    else:
        lines += ["INIT Init", "NEXT Next", "VIEW view", "ACTION_CONSTRAINT EmitEdge"]
    if invs:
        lines.append("INVARIANTS " + invs)
    return "\n".join(lines) + "\n"


# ---------------------------------------------------------------------------------------------- TLC
def model(ctx, cfgs, workers=4, emit=True):
    """Ideal spec on every configuration; returns [(cfg, TLCResult)]."""
    out = []
    for c in cfgs:
        # replay=False: too big to emit / replay every transition; model checking only
        r = ctx.tlc("Flood", "MC_%s.cfg" % c["name"], files={"MC_%s.cfg" % c["name"]: cfg_text(c, emit=emit and c.get("replay", True))},
                    workers=workers if c.get("replay", True) else 8,
                    name="ideal-" + c["name"], timeout=1500)
        if r.violated:
            raise vf.Infra("ideal Flood spec violates %s on configuration %s (specification error, see out/logs)" % (
                r.violated, c["name"]))
        out.append((c, r))
    return out


def simulate(ctx, c, num, depth=60):
    """Random behaviours of the ideal spec on a configuration too big for exhaustive search."""
    fn = "SIM_%s.cfg" % c["name"]
    r = ctx.tlc("Flood", fn, files={fn: cfg_text(c, emit=False)}, simulate="num=%d" % num, depth=depth, workers=4,
                name="sim-" + c["name"], timeout=1500)
    if r.violated:
        raise vf.Infra("ideal Flood spec violates %s in simulation of %s" % (r.violated, c["name"]))
    import re
    m = re.search(r"The number of states generated: (\d+)", r.out)
    r.generated = int(m.group(1)) if m else 0
    m = re.search(r"(\d+) traces generated", r.out)
    r.traces = int(m.group(1)) if m else 0
    return r


# small focused configurations on which each deviation must be caught
def dev_cfg(d):
    l3 = L(("a", "b"), ("b", "c"))
    if d == "DevForwardKeepsReceivedMetric":
        return base("dev", A3, l3, announcers=["a"])
    if d == "DevReplayUsesOwnSequence":
        return base("dev", A3, l3, initups=[L(("a", "b"))], exits=[["b"]], announcers=["a"], maxann=2, conn=1)
    if d == "DevNoHopCheck":
        return base("dev", A3, l3, announcers=["a"], hopsset=[1])
    if d == "DevCount8Wrap":
        return base("dev", A2, L(("a", "b")), routeids=["r1", "r2", "r3"], cntmod=3, announcers=["a"])
    if d == "DevNoSeenMark":
        return base("dev", A3, L(("a", "b"), ("b", "c"), ("a", "c")), announcers=["a"], dup=1)
    if d == "DevForwardLooped":
        return base("dev", A4, L(("a", "b"), ("a", "d"), ("b", "c"), ("a", "c")), initups=[L(("a", "b"), ("a", "d"))],
                    exits=[[]], routeids=[], announcers=["a"], conn=2)
    if d == "DevNoPathPrepend":
        return base("dev", A3, l3, announcers=["a"])
    if d == "DevSeenBlocksResync":
        return base("dev", A3, l3, announcers=["a"], conn=1, disc=1)
    if d == "DevPathCountWrap":
        return base("dev", A4, L(("a", "b"), ("b", "c"), ("c", "d")), announcers=["a"], listmod=3, hopsset=[2])
    raise KeyError(d)


def sensitivity(ctx, devs):
    caught = {}
    for d in devs:
        c = dev_cfg(d)
        r = ctx.tlc("Flood", "MCdev.cfg", files={"MCdev.cfg": cfg_text(c, dev=[d], emit=False)}, workers=4,
                    expect_violation=True, name="dev-" + d)
        if not r.violated:
            raise vf.Infra("deviation %s is not detected by the invariants (vacuous model)" % d)
        caught[d] = r.violated
    return caught


# ---------------------------------------------------------------------------------------------- replay
def cover(edges):
    """Path cover of the emitted relation + for every step the alternative post-states of the same (s, a)."""
    alts = {}
    for e in edges:
        alts.setdefault((vf.canon(e["s"]), vf.canon(e["a"])), {})[vf.canon(e["t"])] = e["t"]
    inits = set()
    for e in edges:
        s = e["s"]
        if not s["net"] and all(not v for v in s["tbl"].values()) and all(not v for v in s["seen"].values()) \
                and not s["pend"] and not s["gone"]:
            inits.add(vf.canon(s))
    # initial states: nothing learned, nothing in flight, nobody has announced yet
    paths, nnodes, nedges = vf.path_cover(edges, init_pred=lambda s: vf.canon(s) in inits and
                                          sum(s["ctr"].values()) == sum(len(v) for v in s["loc"].values()))
    for p in paths:
        cur = p["init"]
        for st in p["steps"]:
            a = alts.get((vf.canon(cur), vf.canon(st["a"])), {})
            st["alts"] = [t for k, t in a.items() if k != vf.canon(st["t"])]
            cur = st["t"]
    return paths, nnodes, nedges


def replay(ctx, runs):
    """runs: [(cfg, TLCResult)] -> replays all path covers in one go test.  Returns dict."""
    cfgs, npaths, nedges_tot, nstates = [], 0, 0, 0
    samples = []
    for c, r in runs:
        if not c.get("replay", True):
            continue
        if not r.edges:
            raise vf.Infra("no edges emitted for %s" % c["name"])
        paths, nnodes, nedges = cover(r.edges)
        npaths += len(paths)
        nedges_tot += nedges
        nstates += nnodes
        # the set-up of a path (exit placement, hop limit, initial links) is read from its initial state
        groups = {}
        for p in paths:
            loc, hops = p["init"]["loc"], p["init"]["hops"]
            key = vf.canon([loc, hops])
            g = groups.setdefault(key, {"name": c["name"], "agents": c["agents"], "links": c["links"],
                                        "exit": sorted(a for a, v in loc.items() if v), "routeids": c["routeids"],
                                        "maxhops": list(hops.values())[0], "paths": []})
            g["paths"].append(p)
        cfgs.extend(groups.values())
        if paths:
            p = max(paths, key=lambda p: len(p["steps"]))
            samples.append({"cfg": c["name"], "init_up": p["init"]["up"], "exit": [a for a, v in p["init"]["loc"].items() if v],
                            "path": [compact(s["a"]) for s in p["steps"][:14]]})
    if SELFTEST == "corrupt-replay":
        # binding self-test: one expected post-state is falsified (a sequence number in a table entry, or a counter)
        done = False
        for g in cfgs:
            for p in g["paths"]:
                for st in p["steps"]:
                    ents = [e for v in st["t"]["tbl"].values() for e in v]
                    if ents and not done:
                        ents[0]["seq"] += 1
                        st["alts"] = []
                        done = True
    inp = os.path.join(ctx.work, "flood_paths.json")
    vf.write_json(inp, {"cfgs": cfgs})
    g = ctx.gotest("flood", HFILES, "^TestZZVFloodReplay$", env={"ZZV_IN": inp}, timeout=1500)
    summ = g.of("summary")
    if not summ:
        raise vf.Infra("replay harness produced no summary:\n" + g.out[-3000:])
    s = summ[0]
    if s["paths"] != npaths:
        raise vf.Infra("replay harness ran %d of %d paths" % (s["paths"], npaths))
    return {"paths": npaths, "edges": nedges_tot, "states": nstates, "steps": s["steps"], "forks": s["forks"],
            "mismatches": g.of("mismatch"), "preds": g.of("pred"), "samples": samples, "maxhops_field": s.get("maxhops_field")}


def compact(a):
    if a.get("act") == "Deliver":
        return "Deliver %s>%s %s#%s path=%s %s%s" % (a["src"], a["dst"], a["o"], a["seq"], ".".join(a["path"]), a["res"],
                                                    " (dup)" if a.get("dup") else "")
    return " ".join(str(a[k]) if k != "l" else "-".join(a[k]) for k in ("act", "n", "p", "l", "o", "seq") if a.get(k))


# ---------------------------------------------------------------------------------------------- traces
TRACE_CFG = dict(name="trace", agents=["a", "b", "c", "d", "e", "f"],
                 links=[sorted(p) for p in itertools.combinations("abcdef", 2)], initups=[[]], exits=[[]], routeids=[],
                 announcers=["a", "b", "c", "d", "e", "f"], maxann=10 ** 9, hopsset=[16], cntmod=256,
                 conn=10 ** 9, disc=10 ** 9, exp=10 ** 9, dup=10 ** 9, age=10 ** 9)
TRACE_INVS = ("ProcessedOnce ForwardedOnce MsgBound PathsSimple ChainsSimple PathsValid Converged MetricIsHops "
              "NearestPreferred Refreshed HopLimit PathIsDistance CountFits DecodedIntact")
# (Resynced is model-checked and bound by the edge replay, the predicates and the agent-level test; it is not asserted on
#  arbitrary recorded schedules, where pending teardowns and ageing interleave with the reconnect)
DEVS_REAL = ["DevForwardKeepsReceivedMetric", "DevReplayUsesOwnSequence", "DevNoHopCheck", "DevCount8Wrap",
             "DevForwardLooped", "DevPathCountWrap", "DevSeenBlocksResync"]


def _validate(ctx, tracefile, name, invs, dev, tcfg=None):
    fn = "Trace_%s.cfg" % name
    text = cfg_text(tcfg or TRACE_CFG, dev=dev, emit=False, invs=invs, trace=True)
    # validate_trace copies spec/ into a scratch directory; the generated cfg must be there too
    e = {"TRACE_FILE": tracefile}
    res = ctx.tlc("TraceFlood", fn, files={fn: text}, workers=1, env=e, expect_violation=True, name=name, timeout=1500,
                  dump_trace=False)
    hw = [o for t, o in res.prints if t == "HW"]
    ln = [o for t, o in res.prints if t == "LEN"]
    events = []
    with open(tracefile) as f:
        for line in f:
            line = line.strip()
            if line:
                events.append(json.loads(line))
    if res.violated and res.violated != "postcondition":
        return {"accepted": False, "violated": res.violated, "hw": None, "len": len(events), "event": None,
                "context": None, "events": events, "res": res}
    if not hw or not ln:
        raise vf.Infra("trace validation did not reach its postcondition:\n" + "\n".join(res.out.splitlines()[-40:]))
    h, n = hw[-1], ln[-1]
    ok = (h == n + 1)
    return {"accepted": ok, "violated": None if ok else "rejected", "hw": h, "len": n,
            "event": events[h - 1] if (not ok and 0 < h <= len(events)) else None,
            "context": [slim(x) for x in events[max(0, h - 8):h]] if not ok else None, "events": events, "res": res}


def slim(ev):
    e = {k: v for k, v in ev.items() if k != "st"}
    if "st" in ev:
        st = ev["st"]
        e["st"] = {"ctr": st.get("ctr"), "seen": st.get("seen"), "tbl": st.get("tbl", [])[:12], "sent": st.get("sent", [])[:6]}
    if "rs" in e and len(e["rs"]) > 8:
        e["rs"] = e["rs"][:8] + ["...%d routes" % len(ev["rs"])]
    if "chunks" in e:
        e["chunks"] = [c if len(c) <= 8 else c[:8] + ["...%d" % len(c)] for c in e["chunks"]]
    return e


def explain(ctx, tracefile, name, tcfg=None):
    """A rejected trace is re-validated with one deviation enabled at a time."""
    for d in DEVS_REAL:
        try:
            v = _validate(ctx, tracefile, name + "-" + d, "", [d], tcfg)
        except vf.Infra:
            continue          # explanation is best effort (TLC can choke on garbage decoded from a wrapped frame)
        if v["accepted"]:
            return d
    return None


def traces(ctx, test, env, name, invs=TRACE_INVS, tcfg=None):
    """tcfg: callable(summary record) -> trace configuration (when the agents are not a..f)"""
    out = os.path.join(ctx.work, name + ".ndjson")
    e = dict(env)
    e["ZZV_OUT"] = out
    g = ctx.gotest("flood", HFILES, "^%s$" % test, env=e, timeout=1500)
    summ = g.of("summary")
    if not summ:
        raise vf.Infra("trace harness produced no summary:\n" + g.out[-3000:])
    if SELFTEST == "corrupt-trace":
        # binding self-test: one logged field is falsified (the metric of a stored route in one Deliver event)
        lines = open(out).read().splitlines()
        for i in range(len(lines) // 2, len(lines)):
            ev = json.loads(lines[i])
            if ev.get("ev") == "Deliver" and ev["st"]["tbl"]:
                ev["st"]["tbl"][0]["m"] += 1
                lines[i] = json.dumps(ev)
                break
        open(out, "w").write("\n".join(lines) + "\n")
    tc = tcfg(summ[0]) if tcfg else None
    v = _validate(ctx, out, name, invs, (), tc)
    return {"summary": summ[0], "preds": g.of("pred"), "records": g.records, "v": v, "file": out, "tcfg": tc}


# ---------------------------------------------------------------------------------------------- classification
def classify(mm):
    """Which deviation explains a spec/real difference?  Returns (deviation or None, site)."""
    a = mm.get("a") or {}
    act = a.get("act", "?")
    f = mm.get("field")
    if f == "res":
        sp, re = mm.get("spec"), mm.get("real")
        if re == "undecodable":
            return "DevCount8Wrap", "decode"
        if sp == "hops" and re == "new":
            return "DevNoHopCheck", "HandleRouteAdvertise"
        if sp == "loop" and re == "new":
            return "DevForwardLooped", "HandleRouteAdvertise"
        if sp == "seen" and re in ("new", "dropped"):
            return "DevNoSeenMark", "HandleRouteAdvertise"
        if sp == "new" and re == "seen":
            return "DevSeenBlocksResync", "HandleRouteAdvertise"
        return None, "HandleRouteAdvertise:res:%s:%s" % (sp, re)
    if f == "ctr":
        if act == "Replay":
            return "DevReplayUsesOwnSequence", "SendFullTable"
        if act == "Announce":
            return "DevCount8Wrap", "AnnounceLocalRoutes"
        return None, act + ":ctr"
    if f == "seen":
        if act == "PeerGone" and mm.get("real_only") and not mm.get("spec_only"):
            return "DevSeenBlocksResync", "handlePeerDisconnect"
        return ("DevNoSeenMark" if mm.get("spec_only") else None), act + ":seen"
    if f in ("tbl", "net"):
        sp = mm.get("spec_entries") or mm.get("spec_msgs") or []
        re = mm.get("real_entries") or mm.get("real_msgs") or []
        if mm.get("send_errors"):
            return "DevCount8Wrap", "send"
        if any("UNDECODABLE" in x for x in (mm.get("real_only") or [])):
            return "DevCount8Wrap", "encode"

        def strip(x, *drop):
            return vf.canon({k: v for k, v in x.items() if k not in drop})

        def same_but(field, conv=None):
            for s in sp:
                for r in re:
                    if f == "tbl":
                        if strip(s, field, "ann") == strip(r, field, "ann") and s.get(field) != r.get(field):
                            return s, r
                    else:
                        if field == "m":
                            if strip(s, "rs", "ann") == strip(r, "rs", "ann") and \
                                    sorted(x["r"] for x in s["rs"]) == sorted(x["r"] for x in r["rs"]) and s["rs"] != r["rs"]:
                                return s, r
                        elif strip(s, field, "ann") == strip(r, field, "ann") and s.get(field) != r.get(field):
                            return s, r
            return None

        if act == "Replay" and (same_but("seq") or len(sp) != len(re)):
            return "DevReplayUsesOwnSequence", "SendFullTable"
        if same_but("m"):
            return "DevForwardKeepsReceivedMetric", "forward" if f == "net" else "store"
        if same_but("seq"):
            return "DevReplayUsesOwnSequence", "sequence"
        hops = mm.get("maxhops")
        if same_but("path"):
            return "DevNoPathPrepend", "forward"
        if f == "net" and len(re) > len(sp) and a.get("res") in ("hops", "loop"):
            return ("DevNoHopCheck" if a.get("res") == "hops" else "DevForwardLooped"), "forward"
        return None, act + ":" + f
    return None, act + ":" + str(f)


FIELD_OWNER = {"seen": "C11", "net": "C11", "tbl": "C12", "ctr": "C14", "res": "C11", "own": "C12", "harness": None}


def report(ctx, pid, rep=None, trs=(), scale=None):
    """Turn real-code observations into findings for property pid."""
    n = 0
    if rep:
        for p in rep["preds"]:
            if p["prop"] != pid:
                continue
            n += 1
            ctx.finding("Flood:%s:%s" % (p["kind"], explains_pred(p)),
                        "%s [configuration %s, after %s]" % (p["what"], p.get("cfg"), [compact(a) for a in p.get("history", [])][-8:]), p)
        for mm in rep["mismatches"]:
            if mm.get("field") == "harness":
                raise vf.Infra("replay harness problem: %s (%s)" % (mm.get("problem"), compact(mm.get("a") or {})))
            dev, site = classify(mm)
            # a difference that no known deviation explains is reported by every flood check that sees it (like an
            # unexplained trace rejection): the code has left the verified design in an unknown way
            owner = DEV_OWNER.get(dev) if dev else pid
            mm["classified"] = dev
            if owner != pid and not SELFTEST:
                ctx.add("mismatches_owned_by_other_properties")
                continue
            n += 1
            what = "real flooder departs from Flood.tla at %s (%s): %s" % (
                compact(mm.get("a") or {}), dev or "unexplained", describe(mm))
            ctx.finding("Flood:%s:%s" % (dev or "unexplained", site), what, mm)
    for tr in trs:
        for p in tr["preds"]:
            if p["prop"] != pid:
                continue
            n += 1
            ctx.finding("Flood:%s:%s" % (p["kind"], explains_pred(p)), "%s [random schedule %s]" % (p["what"], p.get("setup", p.get("n"))), p)
        v = tr["v"]
        if not v["accepted"]:
            dev = explain(ctx, tr["file"], "explain", tr.get("tcfg"))
            owner = DEV_OWNER.get(dev) if (dev and not SELFTEST) else pid     # an unexplained rejection is reported by whoever sees it
            if owner == pid:
                n += 1
                if v["violated"] and v["violated"] != "rejected":
                    what = "a recorded execution of the real flooder network violates invariant %s of Flood.tla" % v["violated"]
                else:
                    what = "a recorded execution of the real flooder network is not a behaviour of Flood.tla: event #%s %s cannot be matched" % (
                        v["hw"], json.dumps(slim(v["event"]))[:600] if v["event"] else None)
                site = (v["event"] or {}).get("ev", v["violated"])
                ctx.finding("Flood:%s:trace:%s" % (dev or "unexplained", site), what + " (%s)" % (dev or "no deviation explains it"),
                            {"event_index": v["hw"], "event": slim(v["event"]) if v["event"] else None, "context": v["context"],
                             "tlc_tail": v["res"].out[-2500:]})
            else:
                ctx.add("rejections_owned_by_other_properties")
    return n


def explains_pred(p):
    k = p["kind"]
    return {"metric-not-hops": "DevForwardKeepsReceivedMetric", "farther-exit-preferred": "DevForwardKeepsReceivedMetric",
            "not-refreshed": "DevReplayUsesOwnSequence", "not-resynced": "DevSeenBlocksResync", "stored-beyond-limit": "DevNoHopCheck",
            "forwarded-beyond-limit": "DevNoHopCheck", "path-not-simple": "DevForwardLooped",
            "undecodable": "DevCount8Wrap", "send-failed": "DevOversizeDropped"}.get(k, "direct") if not (
        k == "stored-beyond-limit" and "distance" in p and not p.get("entry", {}).get("path")) else "DevPathCountWrap"


def describe(mm):
    f = mm.get("field")
    if f == "res":
        return "spec outcome %s, real outcome %s" % (mm.get("spec"), mm.get("real"))
    if f == "ctr":
        return "sequence counter of %s: spec %s, real %s" % (mm.get("node"), mm.get("spec"), mm.get("real"))
    return "%s%s: only in spec %s / only in real %s" % (f, (" of " + mm["node"]) if mm.get("node") else "",
                                                      mm.get("spec_only"), mm.get("real_only"))


def coverage(runs):
    st = sum(r.distinct for _, r in runs)
    tr = sum(r.generated for _, r in runs)
    return st, tr
