# G02 - life cycle of UDP associations and ICMP echo sessions at the exit (specification growth, not a listed property)
#
# spec/DatagramSession.tla (one state machine, Kind = udp | icmp) bound to the real udp.Handler and icmp.Handler:
#   * TLC: the ideal instances hold (counter = live sessions <= maximum, one record / index entry / socket per live
#     session and none otherwise, empty handler after every history that closes everything, one CLOSE notification per
#     idle expiry and only to the owner, no relay for closed / unknown sessions, replies accounted to the session they
#     belong to, never a datagram in clear on an encrypted session); each named deviation is caught;
#   * replay: path covers of the emitted transition relations are executed on real handlers (real key exchange, real
#     loopback sockets, the frame writer as gate and recorder), result and projected state compared after every step;
#   * traces: seeded random histories on the real handlers, validated by TLC (TraceDatagramSession.tla);
#   * probes for the two interleavings no sequential replay can drive (no hook in the code): concurrent opens against the
#     limit, and a close while the return path holds a datagram; plus the handler's own cleanup ticker in real time.
#
# Interpretation / permissive choices:
#   * A session is addressed by (peer connection, stream id).  The handlers key their tables by the bare id; this is the
#     known finding Relay:DevKeyedByStreamIdOnly of C16/C17 and is re-found here per handler (instance "collide"): the
#     real code must then follow the relation with DevKeyedByStreamIdOnly enabled exactly.
#   * The handlers have no peer-disconnect entry point: sessions of a peer that is gone live until the idle expiry (the
#     CLOSE notification is then attempted and fails).  Modelled as the code does it, not judged.
#   * A datagram for a session that is registered but still Opening (the handler is inside WriteOpenAck) is relayed, as
#     the code does.  A CLOSE notification can precede the OPEN_ACK if the session expires while opening: not judged.
#   * ICMP: the identifier of a reply is whatever the kernel's unprivileged ICMP socket reports (the handler documents
#     that it may differ from the request's); sequence number and payload must be the request's.
#   * Frames written after a close has returned are judged only when they carry the datagram in clear (the frame writer
#     is outside every lock; an encrypted frame may always be in flight).
#   * The probes are stress runs: not observing the interleaving in a run is not a verdict, observing it is.
import os
from concurrent.futures import ThreadPoolExecutor
import vf, _replay as R, _dgsession as D


def check_final_idle(rec):
    f = rec["final"]
    bad = []
    if f["count"] != 0 or f["nsock"] != 0 or f["bad"] != 0:
        bad.append("count=%s sockets=%s unattributed=%s" % (f["count"], f["nsock"], f["bad"]))
    for s in f["obj"]:
        if f["obj"][s] != "Closed" or f["byreq"][s] or f["sock"][s] or f["look"][s] != "-":
            bad.append("%s not removed" % s)
        if f["closeN"][s] != 1:
            bad.append("%s got %d CLOSE notifications" % (s, f["closeN"][s]))
        if f["ackN"][s] != 1:
            bad.append("%s got %d acks" % (s, f["ackN"][s]))
    return bad


def run(ctx):
    q = ctx.quick()
    assumptions = []
    skipped = {}
    # ---- TLC (both kinds: the model of the icmp handler is checked even when it cannot be bound here) + builds
    jobs, index = D.tlc_jobs(ctx, ["udp", "icmp"])
    with ThreadPoolExecutor(max_workers=1) as ex:
        ft = ex.submit(D.tlc_all, ctx, jobs)
        bins = {"udp": R.build_test_binary(ctx, "udp", D.HFILES["udp"], name="dg_udp")}
        prefix, why = D.netns_prefix()
        env_icmp = {"ZZV_NETNS": "1"}
        if prefix is None:
            skipped["icmp"] = why
        else:
            bins["icmp"] = R.build_test_binary(ctx, "icmp", D.HFILES["icmp"], name="dg_icmp")
            pr = R.run_test_binary(ctx, bins["icmp"], "^TestZZVDgProbe$", env=env_icmp, prefix=prefix, quiet=True).of("probe")
            if not pr or not pr[0].get("icmp_socket") or not pr[0].get("can_silence_destination"):
                skipped["icmp"] = "no unprivileged ICMP socket in the private network namespace: %s" % (pr[0] if pr else "probe failed")
                del bins["icmp"]
        results = ft.result()
    caught = D.check_model(index, results)
    rel = {(what, kind, name): (c, r) for (what, kind, name, c), r in zip(index, results)}
    states = sum(r.distinct for (w, k, n, c), r in zip(index, results) if w in ("ideal", "collide", "split", "byid"))
    kinds = [k for k in ("udp", "icmp") if k in bins]
    if "icmp" in skipped:
        ctx.log("ICMP binding skipped: %s" % skipped["icmp"])
        assumptions.append("ICMP handler not bound in this run (%s); its model instances were checked by TLC only" % skipped["icmp"])
    else:
        assumptions.append("ICMP harness runs in a private network namespace (unshare -n) with net.ipv4.ping_group_range "
                           "opened; destination 127.0.0.1, silenced through icmp_echo_ignore_all for unanswered echoes")

    cov = {"kinds_bound": kinds, "skipped": skipped, "deviations_caught": caught, "instances": {}}
    nproc = 4 if q else 8
    tot_paths = tot_steps = tot_edges = 0
    samples = []
    for kind in kinds:
        pfx = prefix if kind == "icmp" else None
        env = env_icmp if kind == "icmp" else {}
        site = D.SITE[kind]
        # ---- ideal instances: the whole relation on the real handler
        docs, want_steps, docs_by_name = [], 0, {}
        for (what, k, name), (c, r) in rel.items():
            if k != kind or what != "ideal":
                continue
            doc, npaths, nnodes, nedges, nsteps = D.make_doc(kind, name, c, r.edges, c["Max"])
            docs.append(doc)
            docs_by_name[name] = doc
            r.edges = []        # the relation lives on in the document (states shared): keep memory flat
            want_steps += nsteps
            tot_edges += nedges
            cov["instances"]["%s/%s" % (kind, name)] = {"constants": {k2: str(v) for k2, v in c.items()}, "states": r.distinct,
                                                        "transitions": nedges, "paths": npaths, "steps": nsteps}
            if len(samples) < 4 and doc["paths"]:
                sp = R.expand_path(doc, len(doc["paths"]) // 2)
                samples.append({"instance": "%s/%s" % (kind, name), "path": [s["a"] for s in sp["steps"]][:14]})
        cenv = dict(env)
        cenv["ZZV_CORRUPT"] = os.environ.get("VERIF_CORRUPT_REPLAY", "0")
        summ, mism = D.run_docs(ctx, bins[kind], docs, "ideal_" + kind, nproc, prefix=pfx, env=cenv)
        if R.total(summ, "steps") < want_steps and not mism:
            raise vf.Infra("%s replay executed %d of %d steps without reporting a mismatch" % (kind, R.total(summ, "steps"), want_steps))
        tot_paths += R.total(summ, "paths")
        tot_steps += R.total(summ, "steps")
        per_act = {}
        for s in summ:
            for a, n in s.get("per_action", {}).items():
                per_act[a] = per_act.get(a, 0) + n
        cov["replayed_steps_per_action_" + kind] = per_act
        if kind == "icmp":
            cov["icmp_reply_identifier"] = {"same_as_request": R.total(summ, "reply_ident_same"),
                                            "kernel_assigned": R.total(summ, "reply_ident_differs")}
        if mism:
            # findings protocol: re-validate the observed history with exactly one deviation enabled (a few distinct classes)
            seen = {}
            for mm in sorted(mism, key=lambda m: len(m.get("prefix", []))):
                a = mm.get("a", {})
                cls = (mm.get("cfg"), a.get("act"), mm.get("spec_res"), mm.get("real_res"), bool(mm.get("late")))
                if cls in seen:
                    seen[cls] += 1
                    continue
                seen[cls] = 1
                if mm.get("late") or mm.get("step", -1) < 0:
                    key = "DatagramSession:late-frame-or-datagram:%s:%s" % (D.GENERIC_SITE[kind], a.get("act"))
                elif len(seen) > 3:
                    key = "DatagramSession:unclassified:%s:%s:%s" % (D.GENERIC_SITE[kind], a.get("act"), mm.get("real_res"))
                else:
                    c, doc = rel[("ideal", kind, mm["cfg"])][0], docs_by_name[mm["cfg"]]
                    ds = D.classify(ctx, "%s_%d" % (kind, len(seen)), c, doc, mm)
                    ctx.log("mismatch %s: explained by %s" % (cls, ds or "no single deviation"))
                    if ds:
                        key = "DatagramSession:%s:%s" % (ds[0], site.get(ds[0], D.GENERIC_SITE[kind]))
                    else:
                        key = "DatagramSession:unexplained:%s:%s:%s" % (D.GENERIC_SITE[kind], a.get("act"), mm.get("real_res"))
                ctx.finding(key, D.describe(mm), mm)
            cov["mismatch_classes_" + kind] = {str(k): v for k, v in seen.items()}
        # ---- two peers, one stream id
        c, r = rel[("collide", kind, "collide")]
        cdoc, npaths, nnodes, nedges, nsteps = D.make_doc(kind, "collide", c, r.edges, c["Max"])
        e2 = dict(env)
        e2["ZZV_MAX_MISMATCH"] = 3
        s1, m1 = D.run_docs(ctx, bins[kind], [cdoc], "collide_" + kind, 1 if q else 2, prefix=pfx, env=e2)
        tot_paths += R.total(s1, "paths")
        tot_steps += R.total(s1, "steps")
        cinfo = {"states": r.distinct, "transitions": nedges, "ideal_mismatches": len(m1)}
        if m1:
            cb, rb = rel[("byid", kind, "collideById")]
            byid_ix = {"DevKeyedByStreamIdOnly": R.index_relation(rb.edges, D.base_act)}
            ideal_ix = R.index_relation(r.edges, D.base_act)
            explained = 0
            for mm in m1:
                ds = R.classify(mm, byid_ix, D.base_act, D.proj, D.same_result, ideal_ix) if mm.get("step", -1) >= 0 else []
                if ds:
                    explained += 1
                else:
                    a = mm.get("a", {})
                    ctx.finding("DatagramSession:unexplained:%s:%s:%s" % (D.GENERIC_SITE[kind], a.get("act"), mm.get("real_res")),
                                D.describe(mm), mm)
            # the code must then follow the bare-id relation exactly
            bdoc, bp, bn, be_, bs = D.make_doc(kind, "collideById", cb, rb.edges, cb["Max"])
            s2, m2 = D.run_docs(ctx, bins[kind], [bdoc], "byid_" + kind, 4 if q else 8, prefix=pfx, env=env)
            tot_paths += R.total(s2, "paths")
            tot_steps += R.total(s2, "steps")
            tot_edges += be_
            cinfo.update({"byid_transitions": be_, "byid_steps": R.total(s2, "steps"), "byid_mismatches": len(m2)})
            for mm in m2:
                a = mm.get("a", {})
                ctx.finding("DatagramSession:unexplained-under-DevKeyedByStreamIdOnly:%s:%s:%s" % (
                    D.GENERIC_SITE[kind], a.get("act"), mm.get("real_res")), D.describe(mm), mm)
            if explained and not m2:
                # witnesses taken from the relation that was just replayed without a mismatch
                w_repl = [e for e in rb.edges if e["a"]["act"] == "OpenBegin" and e["a"]["res"] == "pending"
                          and any(v not in ("-", e["a"]["s"]) for v in e["s"]["look"].values())]
                w_close = [e for e in rb.edges if e["a"]["act"] == "CloseFromPeer" and e["a"]["res"] == "ok"
                           and e["s"]["life"][e["a"]["s"]] == "None"]
                what = ("%s keyed by the bare stream id: with two peers using the same id the real handler follows the "
                        "specification's relation with DevKeyedByStreamIdOnly enabled (%d transitions replayed, 0 mismatches) "
                        "and not the ideal one (first ideal mismatch: %s)" % (site["DevKeyedByStreamIdOnly"], be_, D.describe(m1[0])[:600]))
                if w_repl:
                    e = w_repl[0]
                    what += (" ; e.g. OPEN of %s replaces the registered session of the other peer (ActiveCount stays %d with %d "
                             "sockets open, the replaced session is never closed by CLOSE / expiry / Handler.Close)" % (
                                 e["a"]["s"], e["t"]["count"], e["t"]["nsock"]))
                if w_close:
                    what += " ; a CLOSE from peer %s closes the session owned by the other peer" % w_close[0]["a"]["s"][:1]
                ctx.finding("DatagramSession:DevKeyedByStreamIdOnly:%s" % site["DevKeyedByStreamIdOnly"], what,
                            {"ideal_mismatch": m1[0], "byid_replay": cinfo})
        cov["instances"]["%s/collide" % kind] = cinfo

        # ---- code -> spec: random histories
        slots = ("A1", "A2", "B3")   # no id shared by two peers: the ideal relation is the reference
        nh, hl = (30, 40) if q else (400, 60)
        tsum, tv = D.run_traces(ctx, kind, bins[kind], pfx, env, slots, 2 if q else 3, nh, hl, "hist")
        cov["traces_" + kind] = {"histories": tsum["histories"], "events": tsum["events"], "accepted": tv["accepted"],
                                 "per_action": tsum.get("per_action")}
        if not tv["accepted"]:
            hist = D.history_of(tv["events"], tv.get("hw") or 1)
            last = hist[-1] if hist else {}
            ctx.finding("DatagramSession:trace-rejected:%s:%s:%s" % (D.GENERIC_SITE[kind], last.get("ev"), last.get("res")),
                        "a recorded history of the real %s handler is not a behaviour of DatagramSession.tla (%s): after [%s] the "
                        "event %s(%s) -> %s with state %s has no matching transition" % (
                            kind, tv.get("violated") or "no transition", " ".join("%s(%s)" % (e.get("ev"), e.get("s", "")) for e in hist[:-1][-14:]),
                            last.get("ev"), last.get("s"), last.get("res"), vf.canon(last.get("st"))),
                        {"history": hist[-40:], "hw": tv.get("hw")})
        elif len(samples) < 6:
            samples.append({"trace_" + kind: [[e["ev"], e.get("s"), e.get("res")] for e in tv["events"][1:12]]})

        # ---- probes: interleavings without a hook, and the real cleanup ticker
        pe = dict(env)
        pe.update({"ZZV_ROUNDS": 20 if q else 200, "ZZV_PAR": 8, "ZZV_MAX": 2})
        lr = R.run_test_binary(ctx, bins[kind], "^TestZZVDgLimitRace$", env=pe, prefix=pfx, quiet=True).of("limitrace")
        pe["ZZV_ROUNDS"] = 150 if q else 1500
        cr = R.run_test_binary(ctx, bins[kind], "^TestZZVDgCloseRace$", env=pe, prefix=pfx, quiet=True).of("closerace")
        ri = R.run_test_binary(ctx, bins[kind], "^TestZZVDgRealIdle$", env=env, prefix=pfx, quiet=True)
        if not lr or not cr or not ri.of("realidle"):
            raise vf.Infra("%s probes did not report:\n%s" % (kind, ri.out[-2000:]))
        lr, cr, idle = lr[0], cr[0], ri.of("realidle")[0]
        cov["probe_limit_" + kind] = lr
        cov["probe_close_" + kind] = {k2: cr[k2] for k2 in ("rounds", "frames", "frames_after_close_returned", "frames_in_clear")}
        ctx.log("%s probes: limit %s ; close %s" % (kind, lr, cov["probe_close_" + kind]))
        if lr["rounds_over_limit"] > 0:
            ctx.finding("DatagramSession:DevLimitCheckThenAct:%s" % site["DevLimitCheckThenAct"],
                        "%d concurrent OPENs against a maximum of %d: in %d of %d rounds the handler ended with more live sessions "
                        "than the maximum (largest ActiveCount %d) - the limit is read under a read lock, the session is "
                        "registered later under another lock" % (lr["parallel"], lr["max"], lr["rounds_over_limit"], lr["rounds"],
                                                                 lr["largest_count"]), lr)
        if cr["frames_in_clear"] > 0:
            ctx.finding("DatagramSession:DevEmitAfterCloseInClear:%s" % site["DevEmitAfterCloseInClear"],
                        "a CLOSE while the return path holds a datagram: %d frame(s) in %d rounds were sent to the peer with the "
                        "datagram IN CLEAR on an encrypted session (Encrypt returns its input once Close has removed the key); "
                        "%d frame(s) were written after the close had returned. %s" % (
                            cr["frames_in_clear"], cr["rounds"], cr["frames_after_close_returned"], cr.get("sample", "")), cr)
        badidle = check_final_idle(idle)
        cov["real_idle_" + kind] = {"idle_ms": idle["idle_ms"], "ok": not badidle}
        if badidle:
            ctx.finding("DatagramSession:real-cleanup-loop:%s" % D.GENERIC_SITE[kind],
                        "two idle sessions under the handler's own cleanup ticker (idle timeout %d ms): %s ; final state %s" % (
                            idle["idle_ms"], "; ".join(badidle), vf.canon(idle["final"])), idle)
        tot_paths += tsum["histories"]

    transitions = sum(r.generated for (w, k, n, c), r in zip(index, results) if w in ("ideal", "collide", "byid", "split"))
    ctx.evidence("model_checking", assumptions=assumptions + [
        "bounded instances (constants per instance in coverage.instances); sessions are opened at most once per slot; no new "
        "OPEN after Handler.Close or from a peer that is gone",
        "the read-then-emit interleaving of the return path and concurrent opens are model-checked (Split instance, "
        "DevLimitCheckThenAct) and probed by stress runs, not replayed step by step (no scheduling hook in the code)"],
        states=states, transitions=transitions, traces_validated_against_impl=tot_paths, replayed_steps=tot_steps,
        replayed_transitions=tot_edges, samples=samples, exhaustive=True, **cov)
