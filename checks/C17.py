# C17 - Tunnel bookkeeping returns to empty once tunnels and peers are gone
#
# Interpretation (permissive side, DESIGN.md C17):
#  * relay entries have no reclaiming mechanism other than close / reset / open-error / disconnect handling, so both
#    indices of every relay table (tcp, udp, icmp) must be empty at quiescence once every tunnel is closed or its peers
#    are disconnected;
#  * exit / forward connection records, UDP associations and ICMP sessions of a vanished peer are reclaimed by the
#    handler's idle timeout or the next failed write: "gone" is asserted only after the configured idle timeout (200 ms in
#    the scenarios) plus generous slack (3 x idle + 1.5 s of polling);
#  * ingress-side stream records live until the application closes its connection: every application closes at the end of
#    a history before anything is asserted;
#  * counters: exit.Handler / forward.Handler ConnectionCount() must be 0 and equal to the number of records.
#
# Structure
#  1. TLC: the ideal design satisfies IndexConsistent, CounterExact, BookkeepingEmpty (at quiescence) and
#     NoEntryForDeadPeer (after PeerDisconnect) for all interleavings of open / open failure / close / target close /
#     link failure; the deviations DevUdpIcmpRelayNotCleaned, DevNoReverseIndexDelete, DevCounterLeakOnOpenFail and the
#     bare-id keying at the relay and the exit are caught by these invariants.
#  2. Counterexamples of the bare-id keying (orphan in the downstream index, leaked exit counter) replayed on real agents:
#     reproduced => known finding of that site (same sites as C16).
#  3. Frame-level replay of the code-faithful transition relation incl. link failures and failing opens, with relay
#     indices, records and counters compared after every step.
#  4. Operation-level histories (TCP, port forward, UDP; ICMP with puppets) ending with everything closed / disconnected:
#     every relay index, record count and counter must return to zero.
#  5. Histories that do not depend on colliding ids:
#     * open failures of every kind (key-exchange failure, destination not allowed, dial failure, limit reached) and
#       data-path faults (frame that does not authenticate, target reset) against the exit and the forward handler of a
#       real agent driven by a puppet ingress: records = counter = tunnels really established after every step
#       (TestZZVRelayFaults), plus corrupt-frame / target-reset histories between real agents;
#     * fast reconnect (Ops "reconn": LinkDown, DiscCleanup, Reconnect; DevSkipCleanupIfReconnected; NoStaleEntry): the peer
#       is connected again before the transit's disconnect callback runs (TestZZVRelayReconnect).
import vf, _relay as R

INV17 = "TypeOK IndexConsistent CounterExact BookkeepingEmpty NoEntryForDeadPeer NoStaleEntry"


def op(s):
    p = s.split()
    if p[0] in ("disc", "burn"):
        return {"op": p[0], "a": p[1], "p": p[2]}
    return {"op": p[0], "t": int(p[1])}


def run(ctx):
    q = ctx.quick()
    U3 = ("udp", "icmp", "tcp")
    ideal_insts = [dict(topo="chain", ops=("disc", "fail", "tclose"), maxf=0, maxr=0),
                   dict(topo="fanin", ops=("disc", "fail"), maxf=0, maxr=0),
                   dict(topo="chain", kinds=U3, ops=("disc",), maxf=0, maxr=0),
                   dict(topo="vee", ops=("fail", "tclose"), maxf=0, maxr=0)]
    if not q:
        ideal_insts += [dict(topo="fork", ops=("disc", "fail"), maxf=0, maxr=0),
                        dict(topo="chain", ntun=3, kinds=U3, ops=("disc", "fail"), maxf=0, maxr=0),
                        dict(topo="fanin", ops=("disc", "fail", "tclose", "reset"), maxf=1, maxr=0),
                        dict(topo="chain", ntun=1, ops=("disc", "fail", "tclose", "reset", "rev", "cancel"), maxf=1, maxr=1)]
    dev_cfg = {
        "DevUdpIcmpRelayNotCleaned": dict(topo="chain", kinds=U3, dev=["DevUdpIcmpRelayNotCleaned"], ops=("disc",), maxf=0, invs=INV17),
        "DevNoReverseIndexDelete": dict(topo="chain", ntun=1, dev=["DevNoReverseIndexDelete"], ops=(), maxf=0, invs=INV17),
        "DevCounterLeakOnOpenFail": dict(topo="chain", ntun=1, dev=["DevCounterLeakOnOpenFail"], ops=("fail",), maxf=0, invs=INV17),
    }
    site_cfg = {"relay": dict(topo="fanin", ops=("disc",), maxf=0, invs="BookkeepingEmpty"),
                "exit": dict(topo="vee", ops=("tclose",), maxf=0, invs="BookkeepingEmpty")}
    thunks = []
    for i, inst in enumerate(ideal_insts):
        thunks.append(lambda i=i, inst=inst: R.tlc(ctx, "ideal%d" % i, R.cfg(
            inst["topo"], inst.get("ntun", 2), inst.get("kinds", ("tcp",) * 3), ops=inst["ops"], maxf=inst["maxf"], maxr=inst["maxr"],
            invs=INV17 + " Isolation"), workers=2 if q else 4, timeout=1500))
    for name, c in dev_cfg.items():
        thunks.append(lambda name=name, c=c: R.deviation(ctx, name, c["topo"], dev=c["dev"], ops=c["ops"], ntun=c.get("ntun", 2),
                                                         kinds=c.get("kinds", ("tcp",) * 3), maxf=c["maxf"], invs=c["invs"]))
    for site, c in site_cfg.items():
        thunks.append(lambda site=site, c=c: R.deviation(ctx, "sid_" + site, c["topo"], keying="sid", sites=[site], ops=c["ops"],
                                                         maxf=c["maxf"], invs=c["invs"]))
    ext_ideal = {"reconnect": dict(topo="chain", ops=("disc", "reconn"), maxf=0, maxr=0),
                 "corrupt": dict(topo="chain", ntun=1, ops=("corrupt", "tclose", "fail"), maxf=1, maxr=0)}
    ext_dev = {"DevSkipCleanupIfReconnected": dict(topo="chain", ntun=1, ops=("disc", "reconn"), maxf=0, maxr=0,
                                                   dev=["DevSkipCleanupIfReconnected"]),
               "DevDataErrorKeepsRecord": dict(ext_ideal["corrupt"], dev=["DevDataErrorKeepsRecord"])}
    if not q:
        ext_ideal["reconnect"] = dict(topo="fanin", ops=("disc", "reconn"), maxf=0, maxr=0)
        ext_ideal["corrupt"] = dict(topo="chain", ntun=2, ops=("corrupt", "tclose"), maxf=1, maxr=0)

    def ext_cfg(c, invs):
        c = dict(c)
        return R.cfg(c.pop("topo"), c.pop("ntun", 2), c.pop("kinds", ("tcp",) * 3), invs=invs, **c)
    ext_thunks = []
    for name, c in ext_ideal.items():
        ext_thunks.append(lambda name=name, c=c: R.tlc(ctx, "ideal_" + name, ext_cfg(c, INV17 + " Isolation"), workers=2 if q else 4,
                                                       timeout=1500))
    for name, c in ext_dev.items():
        ext_thunks.append(lambda name=name, c=c: R.tlc(ctx, name, ext_cfg(c, INV17), expect_violation=True))
    rel_specs = [("chain", "tcp", dict(ntun=1, ops=("tclose", "fail", "disc"), maxf=1, maxr=0)),
                 ("vee", "forward", dict(ops=("fail",), maxf=0, maxr=0))]
    if not q:
        rel_specs = [("chain", "tcp", dict(ntun=1, ops=("tclose", "fail", "disc", "reset", "rev", "cancel"), maxf=1, maxr=1)),
                     ("fanin", "tcp", dict(ops=("disc",), maxf=0, maxr=0)),
                     ("vee", "forward", dict(ops=("fail", "tclose"), maxf=0, maxr=0)),
                     ("vee", "tcp", dict(ops=("fail", "disc"), maxf=0, maxr=0))]
    for topo, variant, c in rel_specs:
        thunks.append(lambda topo=topo, variant=variant, c=c: R.relation(ctx, "rel_%s_%s" % (topo, variant), topo, **c))
    res = R.parallel(thunks + ext_thunks)
    xres, res = res[len(thunks):], res[:len(thunks)]
    n_i, n_d, n_s = len(ideal_insts), len(dev_cfg), len(site_cfg)
    ideals = res[:n_i]
    devs = dict(zip(dev_cfg, res[n_i:n_i + n_d]))
    sids = dict(zip(site_cfg, res[n_i + n_d:n_i + n_d + n_s]))
    rels = res[n_i + n_d + n_s:]
    for inst, r in zip(ideal_insts, ideals):
        if r.violated:
            raise vf.Infra("ideal Relay spec violates %s on %s (specification error)" % (r.violated, inst))
    caught = {d: r.violated for d, r in devs.items()}
    caught.update({"DevKeyedByStreamIdOnly@" + s: r.violated for s, r in sids.items()})
    for (name, c), r in zip(ext_ideal.items(), xres[:len(ext_ideal)]):
        if r.violated:
            raise vf.Infra("ideal Relay spec (%s) violates %s (specification error)" % (name, r.violated))
        ideal_insts.append(dict(c, name=name))
        ideals.append(r)
    for d, r in zip(ext_dev, xres[len(ext_ideal):]):
        if not r.violated:
            raise vf.Infra("deviation %s not detected by the invariants (vacuous model)" % d)
        caught[d] = r.violated

    # ---- frame-level replay ---------------------------------------------------------------------------------------
    jobs, cex = [], {}
    for site, r in sids.items():
        path = R.cex_path(r)
        if not path:
            raise vf.Infra("no counterexample trace for site %s" % site)
        for variant in (("tcp", "forward") if site == "exit" else ("tcp",)):
            name = "cex_%s_%s" % (site, variant)
            cex[name] = (site, variant, path)
            jobs.append(R.job(name, site_cfg[site]["topo"], variant, paths=[path], patience_ms=3000))
    for (topo, variant, c), r in zip(rel_specs, rels):
        jobs.append(R.job("rel_%s_%s" % (topo, variant), topo, variant, edges=r.edges, ntun=c.get("ntun", 2),
                          burn=[("T", "X")] if topo in ("fanin", "chain") else ()))
    # ---- operation-level histories ------------------------------------------------------------------------------------
    hist = {
        "chain-disc-ingress": ("chain", ["open 1", "send 1", "open 2", "disc A T"]),
        "chain-disc-exit": ("chain", ["open 1", "open 2", "send 2", "disc T X"]),
        # both neighbours of the transit vanish: nobody is left to send a close, only the disconnect handling can clean up
        "chain-disc-both": ("chain", ["open 1", "send 1", "open 2", "disc A T", "disc T X"]),
        "chain-mixed": ("chain", ["burn T X", "open 1", "failopen 2", "send 1", "rsend 1", "reset 1"]),
        "fanin-collide-disc": ("fanin", ["open 1", "open 2", "close 1", "close 2", "disc A T", "disc B T"]),
        "vee-collide": ("vee", ["open 1", "open 2", "close 1", "close 2"]),
        "star-collide": ("star", ["open 1", "open 2", "tclose 1", "close 2"]),
        # faults on the data path: a frame that does not authenticate, a target that resets its connection
        "chain-faults": ("chain", ["burn T X", "open 1", "open 2", "send 1", "corrupt 1", "send 2", "tabort 2"]),
    }
    if not q:
        hist.update({
            "fork-disc": ("fork", ["open 1", "open 2", "send 1", "send 2", "disc T X", "close 2"]),
            "fanin-disc-exit": ("fanin", ["open 1", "open 2", "disc T X"]),
            "chain-tclose": ("chain", ["open 1", "open 2", "tclose 1", "send 2", "tclose 2"]),
            "vee-failopen": ("vee", ["failopen 1", "open 2", "send 2", "close 2"]),
        })
    scs = []
    for name, (topo, ops) in hist.items():
        for kind in ("tcp", "forward", "udp"):
            scs.append(R.scenario("%s-%s" % (name, kind), topo, kind, [op(o) for o in ops], idle_ms=200))
    for site, r in sids.items():
        ops = R.ops_of([s["a"] for s in R.cex_path(r)["steps"]])
        scs.append(R.scenario("cex-%s-tcp" % site, site_cfg[site]["topo"], "tcp", ops, idle_ms=200))
    if not q:
        import C16
        scs += [dict(s, idle_ms=200, no_leak=False) for s in C16.sim_scenarios(ctx, n=30, depth=30)]
    out, recs, icmp = R.run_all(ctx, jobs, scs, extra=["Faults", "Reconnect"])
    faults, reconn = ctx.relay_extra["Faults"], ctx.relay_extra["Reconnect"]
    reproduced = {}
    for name, (site, variant, path) in cex.items():
        o = out.pop(name)
        if any(m.get("infra") for m in o["mismatches"]):
            raise vf.Infra("counterexample replay %s could not be driven: %s" % (name, o["mismatches"][0]["diff"]))
        reproduced[name] = not o["mismatches"]
        if not o["mismatches"]:
            t = path["steps"][-1]["t"]
            left = {a: (len(t["rup"][a]), len(t["rdn"][a]), len(t["xc"][a]), t["xcnt"][a]) for a in t["rup"]
                    if t["rup"][a] or t["rdn"][a] or t["xc"][a] or t["xcnt"][a]}
            ctx.finding("Relay:DevKeyedByStreamIdOnly:" + R.SITE_KEY[(site, variant)],
                        "real agents follow the TLC counterexample of bare-stream-id keying at the %s (%s, %s): after %d steps every "
                        "tunnel is gone and the links are quiet, yet (relay up, relay down, exit records, exit counter) = %s"
                        % (site, site_cfg[site]["topo"], variant, len(path["steps"]), left),
                        {"site": site, "variant": variant, "actions": [s["a"] for s in path["steps"]]})
    nmis = R.report_replay(ctx, out)

    nfail = R.report_scenarios(ctx, recs, R.C17_KINDS)
    nfail += R.report_icmp(ctx, icmp, R.C17_KINDS)
    for f in faults.get("fails") or []:
        nfail += 1
        ctx.finding("Relay:unexplained:%s-handler:bookkeeping:%s" % (f["handler"], f["step"]),
                    "puppet ingress against the %s handler of a real agent, step %s: %s" % (f["handler"], f["step"], f["detail"]), f)
    for f in reconn.get("fails") or []:
        nfail += 1
        ctx.finding("Relay:unexplained:relay-table:%s" % f["scenario"], f["detail"], f)

    rel_paths = sum(o["paths"] for o in out.values())
    ctx.evidence("model_checking",
                 assumptions=["bounded model: 2 tunnels (3 in the thorough tier), every agent in one role, one connection per pair "
                              "without reconnect, a link failure is atomic for both ends",
                              "exit-side records of a vanished peer may live until the idle timeout: asserted empty after "
                              "3 x idle timeout (200 ms) + 1.5 s",
                              "ICMP exit handler not exercised when unprivileged ICMP sockets are unavailable: icmp_exit_real=%s"
                              % icmp.get("icmp_exit_real")],
                 states=sum(r.distinct for r in ideals), transitions=sum(r.generated for r in ideals),
                 traces_validated_against_impl=rel_paths + len(cex) + len(recs) + 4 + 2 + (reconn.get("rounds") or 0),
                 exhaustive=True,
                 ideal_instances=[dict(inst, states=r.distinct, transitions=r.generated) for inst, r in zip(ideal_insts, ideals)],
                 deviations_caught=caught, counterexamples_reproduced_on_code=reproduced,
                 relation_edges={n: o["edges"] for n, o in out.items()}, replayed_paths=rel_paths,
                 replayed_steps=sum(o["steps"] for o in out.values()), replay_mismatches=nmis,
                 scenarios=len(recs), scenario_failures=nfail, icmp_exit_real=icmp.get("icmp_exit_real"),
                 fault_steps=faults.get("steps"), fast_reconnect_rounds=reconn.get("rounds"),
                 samples=[{"replay_path": next(iter(out.values()))["sample"]},
                          {"counterexample_relay": [s["a"] for s in cex["cex_relay_tcp"][2]["steps"]]},
                          {"history": hist["fanin-collide-disc"]}])
