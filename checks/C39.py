# C39 - Control responses reach only the agent that asked
#
# Interpretation (permissive side):
#  * "delivered only to the agent that issued the matching request": a result handed to a caller of
#    SendControlRequest* must be the response to that caller's own request; a response that is still awaited by its
#    issuer must not be consumed by another agent's caller nor dropped by a transit.  A response arriving after the
#    caller gave up (cancelled / timed out) may be dropped.
#  * "carries the answer of the agent that request targeted": status requests are used because the status document
#    names the answering agent; the caller's result must name the agent it asked.
#  * Request identifiers on the wire and the layout of pendingControl / forwardedControl are NOT part of the
#    property: when only those differ from the specification the check reports an infrastructure problem (the
#    specification no longer describes the code), not a violation.  Verdicts come from what callers receive and from
#    whose answer / whose request is travelling on which link.
import vf, _control as C


def run(ctx):
    mdl = C.model(ctx)
    rp = C.replay(ctx, mdl)
    nfind = C.report(ctx, mdl, rp)
    st = rp["stress"]
    if st["bad"]:
        ctx.finding("Control:stress:wrong-or-lost",
                    "free-running concurrent status requests from A, B and T through T: %d of %d callers got another "
                    "agent's answer or none at all, e.g. %s" % (st["bad"], st["requests"], st["samples"][:3]), st)
        nfind += 1
    tot = rp["total"]
    if not nfind and tot["diverged"]:
        div = [m for m in rp["mismatches"] if m.get("class") == "diverged"]
        import os
        os.makedirs(os.path.join(vf.VERIF, "out", "logs"), exist_ok=True)
        vf.write_json(os.path.join(vf.VERIF, "out", "logs", "%s-divergences.json" % ctx.pid), div[:20])
        raise vf.Infra("the code no longer follows Control.tla (%d replayed paths differ only in identifiers / table "
                       "contents, e.g. step %s fields %s) although no caller received a wrong or no answer: "
                       "update the specification" % (tot["diverged"], div[0].get("a"), div[0].get("fields")))
    ideals, bigs = mdl["ideals"], mdl["r_bigs"]
    mid = rp["paths"][len(rp["paths"]) // 2]
    ctx.evidence("model_checking",
                 assumptions=["bounded instances (MaxReq, MaxPer, cancellations, broken target connections): star A,B - T - X,Y, "
                              "askers A, B and the transit T itself; checked exhaustively: %s; every transition replayed on "
                              "real agents: %s and %s" % (mdl["bigs"], mdl["small"], mdl["downinst"]),
                              "one transit between asker and target (longer chains repeat the transit's step)",
                              "status requests only (the dispatch code is the same for every control type)",
                              "frames of one link direction are processed in order (in-memory links, one frame released at a time)",
                              "after a target's connection broke, a transit may keep waiting or fail the relayed request with an "
                              "error response under the asker's id; only what callers receive is judged there"],
                 states=sum(r.distinct for r in bigs + ideals), transitions=sum(r.generated for r in bigs + ideals),
                 replayed_states=sum(r.distinct for r in ideals), replayed_transitions=rp["edges"],
                 traces_validated_against_impl=tot["paths"] + len(rp["scenarios"]),
                 exhaustive=True,
                 replayed_paths=tot["paths"], replayed_steps=tot["steps"],
                 replay_observable_mismatches=tot["viol"], replay_internal_divergences=tot["diverged"],
                 deviation_scenarios=[{"name": s["name"], "bad": [o for o in s["outcome"] if not o["good"]],
                                       "skipped_steps": s["skipped"]} for s in rp["scenarios"]],
                 deviations_caught=mdl["caught"],
                 stress_requests=st["requests"], stress_bad=st["bad"],
                 samples=[{"replay_path": [s["a"] for s in mid["steps"]]},
                          {"deviation_scenario": mdl["seeds"][0]}])
