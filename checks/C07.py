# C07 - Frames never exceed the payload limit and stream bytes are re-assembled exactly
#
# Interpretation:
#  * "every frame an agent writes to a peer": every frame of every type on every link of an A-B-C mesh is observed at
#    the transport (the encoder refuses larger payloads, so an attempt to send one shows up as lost bytes).
#  * "an application write of size n": TCP stream / port forward: ONE Write call of n bytes on the connection returned
#    by Agent.Dial / Agent.DialForward (the far end is an echo server, so the exit's return path carries the same n
#    bytes back); shell stdout: a command producing n bytes; shell stdin: n bytes sent the way the project's shell
#    client sends them (messages of <= 4096 bytes -- a message is the unit of the shell API, not a byte stream);
#    file transfer: a file of n bytes through UploadFile / DownloadFile.
#  * the far end must see exactly the written bytes (SHA-256), whatever the framing.
#  * a write that returns an error, bytes that differ at the far end (or on the way back) and a frame above the limit
#    are violations.  Frame lengths that differ from the ones the spec's transcription predicts, while all frames are
#    within the limit and the bytes arrive exactly, are recorded as DRIFT: every remaining size is still driven, and
#    only if the whole run ends with drift and without any violation the check exits 2 (the specification no longer
#    describes the code) -- never a violation.
#  * sizes: the boundary sizes, every size within 4 bytes of k*P for k = 1..10 (P = 16384-28), seeded random sizes up
#    to 200 KiB and 1 MiB (5 MiB); tcp and forward (meshConn.Write) run all of them in both tiers, the other paths a
#    seeded sample in the quick tier and all of them in the thorough tier.
import os
import vf, _chunking as K


def run(ctx):
    ideal, vecs, vsum, caught, scaled = K.model(ctx)
    sizes, summ, scen = K.drive(ctx, vecs, vsum, ideal.random_sizes, corrupt=os.environ.get("ZZV_C07_CORRUPT"))
    P = vsum["p"]
    summ["oversize"] = summ.get("oversize") or []
    for line in summ["oversize"][:5]:
        ctx.finding("Chunking:oversize-frame:%s" % line.split(" ")[0].split("/")[0],
                    "a frame with more than %d payload bytes was written to a peer: %s" % (vsum["max"], line),
                    {"frame": line, "all": summ["oversize"][:50]})
    bad = [s for s in scen if not s["ok"]]
    by_kind = {}
    for s in bad:
        by_kind.setdefault(s["kind"], []).append(s)
    PIPES = 2 * 65536                                       # stdin + stdout pipe of the command
    groups = {}
    for kind, ss in sorted(by_kind.items()):
        for s in ss:
            stalled = kind == "shellin" and s["n"] > PIPES and s["err"] == "timeout"
            groups.setdefault((kind, stalled), []).append(s)
    for (kind, stalled), ss in sorted(groups.items()):
        s = ss[0]
        if stalled:
            # the session stopped moving (ShellPipes.tla: NoStall), not a framing problem
            ctx.finding("ShellPipes:DevStdinWriteUnderLock:shellin:beyond-pipe-capacity",
                        "shell session stalled: %d bytes of stdin to a command that echoes its input (head -c) never came back "
                        "(far end got %s, expected %s, %s); the exit's frame loop was blocked writing to the command's stdin"
                        % (s["n"], s["far"], s["want"], s["err"]),
                        {"first": s, "failing": [{k: x[k] for k in ("kind", "n", "err", "far", "want")} for x in ss]})
            continue
        cls = "below-P" if s["n"] < P else "from-P"          # P = Max - Ovh: the largest plaintext of one frame
        dev = "+".join(d for d in K.DEVS if kind in K.DEV_KINDS[d]) or "none"
        ctx.finding("Chunking:%s:%s:%s" % (dev, kind, cls),
                    "%s of %d bytes did not arrive intact (far end %s, back %s, expected %s%s); frames up %s down %s; failing "
                    "sizes of this path: %s" % (kind, s["n"], s["far"], s.get("back") or "-", s["want"],
                                                (", " + s["err"]) if s["err"] else "", s["up"], s["down"],
                                                [x["n"] for x in ss]),
                    {"first": s, "failing": [{k: x[k] for k in ("kind", "n", "err", "far", "want", "up", "down")} for x in ss]})
    binding = [(s["kind"], s["n"], b) for s in scen for b in (s.get("binding") or [])]
    if binding:
        ctx.log("drift: %d frame-length differences from the transcription, first: %s" % (len(binding), binding[0]))
    if binding and not ctx.violations:
        raise vf.Infra("Chunking.tla no longer describes the code: %d scenarios ran, all bytes arrived and no frame exceeded "
                       "the limit, but %d frame-length sequences differ from the transcription; first: %s" % (
                           len(scen), len(binding), binding[0]))
    nontrivial = len({(s["kind"], s["n"]) for s in scen if s["n"] >= P - 1 and s["nup"] + s["ndown"] >= 1})
    ctx.evidence("exploration",
                 assumptions=["Chunking.tla checked exhaustively with scaled constants %s for every write size 0..%d on all 5 "
                              "chunkers, all read segmentations" % (scaled, scaled["maxwrite"]),
                              "real code driven on an in-memory A-B-C mesh with the sizes TLC derives from the real constants "
                              "(Max 16384, overhead 28): 0, 1, P-1, P, P+1, 2P-1, 2P, 2P+1, every size within 4 bytes of k*P for "
                              "k = 1..10, %d seeded random sizes below 200 KiB, 1 MiB%s; tcp/forward run all %d sizes, the other "
                              "paths %s; random payloads (seed)" % (len(ideal.random_sizes), "" if ctx.quick() else ", 5 MiB",
                                                                   len(sizes), "a seeded sample" if ctx.quick() else "all"),
                              "shell stdin is written in messages of <= 4096 bytes like the shell client does; file transfers are "
                              "always gzip-compressed by the code, so their frame sizes follow the compressed stream",
                              "the reader of a shell session consumes promptly (the adapter drops output when its 64-message "
                              "buffer stays full for 100 ms; not part of this property)"],
                 evaluations=len(scen), distinct_nontrivial=nontrivial,
                 rule="one evaluation = (data path, write size) run end to end on real agents with every frame on every link "
                      "observed; non-trivial = size >= P-1 (at or beyond the one-frame boundary) and at least one data frame seen",
                 frames_observed=summ["frames"], max_payload_seen=summ["max_payload"], limit=vsum["max"],
                 scenarios_failed=len(bad), binding_differences=len(binding),
                 model_states=ideal.distinct, model_transitions=ideal.generated, shellpipes_states=ideal.pipes_states,
                 deviations_caught=caught, skipped=summ.get("skipped") or [],
                 sizes_count=len(sizes), random_sizes=ideal.random_sizes, paths=K.KINDS, exhaustive=False,
                 scenarios_per_path={k: sum(1 for s in scen if s["kind"] == k) for k in K.KINDS},
                 samples=[{k: s[k] for k in ("kind", "n", "ok", "far", "up", "down", "max_payload")} for s in scen
                          if s["n"] in (P, P + 1)][:8])
