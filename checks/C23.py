# C23 - SOCKS5 request handling is robust and dials exactly what was asked
#
# Interpretation (permissive side):
#  * "well formed" reply = VER 5, REP in 0..8, RSV 0, ATYP in {1,3,4} with an address of the matching length and a port;
#    at most one reply per request.
#  * "dials exactly": the address string handed to the dialer splits into the encoded port and a host that is the encoded
#    domain name byte for byte, or an IP equal to the encoded one (an IPv4-mapped IPv6 address may be dialled as IPv4).
#  * unsupported command (anything but CONNECT, UDP ASSOCIATE and the custom ICMP ECHO 0x04; BIND is not supported) -> 7;
#    unsupported address type -> 8; both at once -> 7 or 8.  A supported command that is switched off may answer 7, 2 or 1.
#  * truncated / invalid-version / zero-length-domain requests: any failure reply or none, but nothing may be executed.
#  * ICMP ECHO with a domain name or an unspecified address: any reply (the statement does not cover it).
import os
import vf, _socks5 as S

HF = [S.COMMON, "socks5/request_test.go"]
DEVS = ["DevUnsupportedAtypAsCommand", "DevExecuteBeforePort"]


def cfg(size, dev=(), emit=True):
    return 'CONSTANTS Size = "%s" Dev = {%s}\nINIT Init\nNEXT Next\nINVARIANTS ImplMeetsOracle%s\n' % (
        size, ",".join('"%s"' % d for d in dev), " EmitVec" if emit else "")


def run(ctx):
    size = "quick" if ctx.quick() else "thorough"
    res = ctx.tlc("Socks5Req", "MC.cfg", files={"MC.cfg": cfg(size)}, tags=("VEC",), dump_trace=False)
    if res.violated:
        raise vf.Infra("the transcription of readRequest violates the oracle in the model (%s): specification error" % res.violated)
    vecs = [o for t, o in res.prints if t == "VEC"]
    if len(vecs) != res.distinct:
        raise vf.Infra("TLC printed %d vectors for %d shapes" % (len(vecs), res.distinct))
    caught = {}
    for d in DEVS:
        r = ctx.tlc("Socks5Req", "MCdev.cfg", files={"MCdev.cfg": cfg("quick", [d], emit=False)}, expect_violation=True,
                    dump_trace=False)
        if not r.violated:
            raise vf.Infra("deviation %s is not rejected by the oracle (vacuous oracle)" % d)
        caught[d] = r.violated
    vecs.sort(key=vf.canon)
    inp = os.path.join(ctx.work, "c23vecs.json")
    vf.write_json(inp, vecs)
    r = ctx.gotest("socks5", HF, "^TestZZVReqVectors$", env={"ZZV_IN": inp}, timeout=1500)
    summ = (r.of("summary") or [None])[0]
    if not summ:
        raise vf.Infra("vector harness produced no summary:\n" + r.out[-3000:])
    for x in r.of("violation"):
        s = x["shape"]
        ctx.finding("Socks5Req:cmd=%d:atyp=%d:%s" % (s["cmd"], s["atyp"], "|".join(w.split(":")[0].split(" ")[0] for w in x["why"])),
                    "request %s (shape %s): %s; handler wrote %s, executed %s" % (
                        x["bytes"], vf.canon(s), "; ".join(x["why"]), x["raw"], x["exec"]), x)
    fuzz = None
    if not ctx.quick():
        fr = ctx.gotest("socks5", HF, "^TestZZVReqFuzz$", env={"ZZV_N": 500000}, timeout=1500)
        fuzz = (fr.of("summary") or [None])[0]
        if not fuzz:
            raise vf.Infra("fuzz harness produced no summary")
        for x in fr.of("violation"):
            ctx.finding("Socks5Req:fuzz:%s" % "|".join(w.split(":")[0].split(" ")[0] for w in x["why"]),
                        "byte stream %s (%s): %s; handler wrote %s, executed %s" % (
                            x["bytes"], x["ref"], "; ".join(x["why"]), x["raw"], x["exec"]), x)
    if not ctx.violations and summ["drift"]:
        d = r.of("drift")[0]
        raise vf.Infra("Socks5Req.Impl is not a faithful transcription of the handler (oracle still satisfied): %d vectors "
                       "differ, first %s" % (summ["drift"], vf.canon(d)))
    classes = summ["classes"]
    ctx.evidence("exploration",
                 assumptions=["the no-auth greeting precedes the request; the dialer, UDP and ICMP handlers are recorders that "
                              "succeed", "address contents are drawn per class (seeded) - the class, not every byte value, "
                              "is enumerated", "byte streams beyond the enumerated shapes are covered by seeded fuzzing only "
                              "(thorough tier)"],
                 evaluations=summ["vectors"] + (fuzz["runs"] if fuzz else 0),
                 distinct_nontrivial=len(classes),
                 rule="request shapes = version x command byte x address type x address length x address class x port x "
                      "truncation offset (all offsets for base shapes) x handlers on/off, enumerated by TLC from "
                      "Socks5Req.tla (%s: %d shapes); oracle AllowedReps/AllowedExec from the statement, plus reply grammar and "
                      "exact dial address checked on the real bytes" % (size, len(vecs)),
                 outcome_classes=classes, transcription_drift=summ["drift"], deviations_caught=caught,
                 tlc_shapes=res.distinct, fuzz=fuzz,
                 samples=[vecs[len(vecs) // 7], vecs[len(vecs) // 2], vecs[-3]])
