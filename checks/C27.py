# C27 - Directory uploads never write outside the destination
#
# Interpretation (permissive side, see BUILDING.md):
#  * "outside the destination directory" = every path that is not the destination directory itself or below it,
#    after symbolic links are resolved (physical location).  A change = a node created / removed / replaced, file
#    content or mode changed, or a new hard link to an outside file (link count changes).
#  * Creating, INSIDE the destination, a symbolic link whose target text points outside is not by itself counted as a
#    violation (nothing outside is touched by it); following such a link while extracting a later entry is.
#  * Verdicts come only from the real extraction: the harness snapshots the real tree outside the destination
#    before / after UntarDirectory.  A difference between the real result and the spec's prediction that does not
#    touch anything outside is a binding problem (exit 2), not a violation.
import vf, _fileaccess as F

NAMES_Q = [["d"], ["d", "x"], ["d", "x", "x"], ["x"], ["x", "s"], [".."]]
NAMES_T = NAMES_Q + [["..", "s"], ["d", "x", "y"], ["d", "x", "y", "s"], ["."]]
NAMES_S = [["d", "x"], ["d", "x", "x"], ["x", "s"]]     # smallest alphabet containing the escape
TARGETS_Q = [["rel", ".."], ["rel", "..", ".."], ["rel", "..", "..", "s"], ["abs", "s"], ["rel", "..", "ox"]]
TARGETS_T = TARGETS_Q + [["rel", "d"]]


def classify(esc, devmap, devname):
    """Is the real behaviour of an escaping archive the one the site's deviation predicts?"""
    d = devmap.get(F.arch_key(esc["arch"]))
    if d is None:
        return None
    if d["st"] == esc["real_st"] and F.same_snap(esc["real"], F.snap_of_nodes(d["t"])):
        return devname
    return None


def run(ctx):
    quick = ctx.quick()
    names = NAMES_Q if quick else NAMES_T
    TARGETS = TARGETS_Q if quick else TARGETS_T
    maxe = 3
    # 1. the ideal design satisfies NoEscape for every archive of the bounded alphabet
    ideal = F.x_run(ctx, names, TARGETS, maxe, dev=(), emit=True, tag="MCX")
    if ideal.violated:
        raise vf.Infra("ideal FileAccess spec (part X) violates %s (specification error)" % ideal.violated)
    # 2. sensitivity + the pinned extractors' relations: each deviation is explored by TLC (edges carry TLC's verdict
    #    on NoEscape for the post-state); it must let some archive escape, else the model is vacuous
    caught, devgraph, devesc = {}, {}, {}
    for d in ("DevLexicalOnly", "DevNoLinkChecks", "DevPrefixNoSeparator", "DevChmodDir"):
        dr = F.x_run(ctx, NAMES_Q, TARGETS_Q, maxe, dev=(d,), emit=True, invs=False, tag="MCXd",
                     kinds=("dir", "file", "sym") if d == "DevNoLinkChecks" else ("dir", "dirc", "file", "sym", "hard"))
        devesc[d] = [e["arch"] for e in dr.edges if e.get("esc")]
        if not devesc[d]:
            raise vf.Infra("%s lets nothing escape in the bounded model (vacuous model)" % d)
        caught[d] = "NoEscape violated by %d archives, e.g. %s" % (len(devesc[d]), F.arch_text(min(devesc[d], key=len)))
        devgraph[d] = F.XGraph(dr.edges)
    edges = list(ideal.edges)
    sim_edges = 0
    if not quick:
        # longer archives: 4 entries exhaustively over the quick alphabet, 6 entries by simulation
        e4 = F.x_run(ctx, NAMES_Q[1:], TARGETS_Q, 4, dev=(), emit=True, tag="MCX4")
        if e4.violated:
            raise vf.Infra("ideal FileAccess spec (part X, 4 entries) violates %s" % e4.violated)
        edges += e4.edges
        sim = F.x_run(ctx, NAMES_T, TARGETS, 6, dev=(), emit=True, simulate="num=3000", depth=8, tag="MCXsim")
        if sim.violated:
            raise vf.Infra("ideal FileAccess spec (part X, simulation) violates %s" % sim.violated)
        sim_edges = len(sim.edges)
        edges += sim.edges
        ideal.distinct += e4.distinct
    cases = F.x_cases(edges)
    # 2b. the ideal exploration stops where the ideal extractor reports an error; what the pinned extractors accepted
    #     instead is explored under their deviations, and the archives that escape THERE are added as cases (expected
    #     result = the ideal's, computed by following the ideal relation)
    graph = F.XGraph(ideal.edges)
    dev_escaping = 0
    for d in devesc:
        dev_escaping += F.x_add_cases(cases, graph, devesc[d], limit=800 if quick else None)
    # 3. replay every enumerated archive on every real extractor (tar.gz; the HTTP API's extractor also as plain tar)
    tot = {"cases": 0, "mismatches": 0, "escapes": 0, "extract_errors": 0, "extract_ok": 0}
    per_site, benign_all, sample = {}, [], None
    for pkg, site, devname, formats in F.X_SITES:
        for fmt in formats:
            # quick: the plain-tar path of the HTTP extractor differs only in the decompression step: every 3rd (thorough: 2nd) archive
            k = 3 if quick else 2
            sel = cases if fmt != "plain" else [c for c in cases if c["id"] % k == ctx.seed % k or c.get("from_dev")]
            summ, mism, escapes = F.x_replay(ctx, sel, pkg=pkg, plain=(fmt == "plain"), name="untar_%s.json" % fmt)
            if summ.get("site") != site:
                raise vf.Infra("harness bound to %r, expected %r" % (summ.get("site"), site))
            per_site["%s(%s)" % (site, fmt)] = {k: summ[k] for k in tot}
            for k in tot:
                tot[k] += summ[k]
            sample = sample or summ.get("sample")
            # which transcribed deviation predicts exactly what the real code did with an escaping archive?  (the
            # site's own pinned behaviour first; followed in the deviations' relations, archives outside them - e.g.
            # longer ones - are put to TLC directly)
            order = [devname] + [d for d in devgraph if d != devname]
            rest = []
            for esc in escapes:
                dev, covered = None, False
                for d in order:
                    pr = devgraph[d].predict(esc["arch"])
                    if pr is None:
                        continue
                    covered = True
                    if pr[0] == esc["real_st"] and F.same_snap(esc["real"], F.snap_of_nodes(pr[1])):
                        dev = d
                        break
                esc["_dev"] = dev
                if not covered:
                    rest.append(esc)
            for k in range(0, min(len(rest), 1200), 300):      # (beyond that the escapes stay labelled unexplained)
                chunk = rest[k:k + 300]
                dr = F.x_run(ctx, NAMES_T, TARGETS_T, 6, dev=(devname,), emit=True, invs=False, tag="MCXrel",
                             only=[e["arch"] for e in chunk])
                devmap = {F.arch_key(e["arch"]): e for e in dr.edges}
                for esc in chunk:
                    esc["_dev"] = classify(esc, devmap, devname)
            for esc in escapes:
                dev = esc.pop("_dev")
                kinds = "+".join(sorted(set(e["kind"] for e in esc["arch"])))
                key = "FileAccess:%s:%s" % (dev or "unexplained:" + kinds, site)
                ctx.finding(key, "%s (%s archive) changed %s outside the destination while extracting [%s]" % (
                    site, "plain tar" if fmt == "plain" else "tar.gz", esc["outside_changes"], esc["archs"]), esc)
            benign_all += [(site, fmt, m) for m in mism if not m.get("escape")]
    if benign_all and not ctx.violations and not ctx.known_hits:
        site, fmt, m = benign_all[0]
        raise vf.Infra("binding mismatch without a property violation: %s (%s) on [%s] gives %s/%s, spec says %s "
                       "(%d such cases) - FileAccess.tla no longer describes the extractor" % (
                           site, fmt, m["archs"], m["real_st"], m["diff"], m["want_st"], len(benign_all)))
    # 4. binding self-test: a corrupted expectation must be noticed by the comparison
    probe = [c for c in cases if c["st"] == "open" and len(c["arch"]) >= 1][:40]
    s2, m2, _ = F.x_replay(ctx, probe, corrupt=probe[-1]["id"], name="untar_probe.json")
    if not any(m["id"] == probe[-1]["id"] for m in m2):
        raise vf.Infra("binding self-test failed: corrupted expected tree was not detected")
    ctx.evidence("model_checking",
                 assumptions=["file system semantics of FsCore.tla (Linux path resolution, os.MkdirAll/OpenFile/Remove/"
                              "Symlink/Link as issued by the Go runtime) - validated by comparing the complete real "
                              "tree with the predicted tree for every enumerated archive",
                              "bounded alphabet: names %s, link targets %s, kinds dir/file/symlink/hardlink, "
                              "<= %d entries%s; file modes and special entry types (devices, fifos) not modelled" % (
                                  ["/".join(n) for n in names], ["/".join(t) for t in TARGETS], maxe,
                                  "" if quick else " (+ 4 entries over the quick alphabet, 6 entries by simulation)"),
                              "single extraction into an empty or missing destination; no concurrent modification",
                              "sites bound: filetransfer.UntarDirectory (tar.gz) and the HTTP API upload extractor "
                              "health.extractTarWithFallback (tar.gz and plain tar)"],
                 states=ideal.distinct, transitions=len(cases),
                 traces_validated_against_impl=tot["cases"], exhaustive=True,
                 replay_mismatches=tot["mismatches"], real_escapes=tot["escapes"],
                 real_extract_errors=tot["extract_errors"], real_extract_ok=tot["extract_ok"], per_site=per_site,
                 simulated_edges=sim_edges, deviations_caught=caught, cases_from_deviation_escapes=dev_escaping,
                 samples=[{"archive": c["arch"], "predicted": c["st"]} for c in cases[len(cases) // 2:len(cases) // 2 + 3]]
                 + [sample])
