# C27 - Directory uploads never write outside the destination
#
# Interpretation (permissive side, see BUILDING.md):
#  * "outside the destination directory" = every path that is not the destination directory itself or below it,
#    after symbolic links are resolved (physical location).  A change = a node created / removed / replaced, file
#    content or mode changed, or a new hard link to an outside file (link count changes).
#  * Creating, INSIDE the destination, a symbolic link whose target text points outside is not by itself counted as a
#    violation (nothing outside is touched by it); following such a link while extracting a later entry is.
#  * Verdicts come only from the real extraction: the harness snapshots the real tree outside the destination
#    before / after UntarDirectory.  A difference between the real result and the spec's prediction that does not
#    touch anything outside is a binding problem (exit 2), not a violation.
import vf, _fileaccess as F

NAMES_Q = [["d"], ["d", "x"], ["d", "x", "x"], ["x"], ["x", "s"], [".."]]
NAMES_T = NAMES_Q + [["..", "s"], ["d", "x", "y"], ["d", "x", "y", "s"], ["."]]
NAMES_S = [["d", "x"], ["d", "x", "x"], ["x", "s"]]     # smallest alphabet containing the escape
TARGETS_Q = [["rel", ".."], ["rel", "..", ".."], ["rel", "..", "..", "s"], ["abs", "s"]]
TARGETS_T = TARGETS_Q + [["rel", "d"]]


def classify(esc, devmap):
    """Is the real behaviour of an escaping archive the one DevLexicalOnly predicts?"""
    d = devmap.get(F.arch_key(esc["arch"]))
    if d is None:
        return None
    if d["st"] == esc["real_st"] and F.same_snap(esc["real"], F.snap_of_nodes(d["t"])):
        return "DevLexicalOnly"
    return None


def run(ctx):
    quick = ctx.quick()
    names = NAMES_Q if quick else NAMES_T
    TARGETS = TARGETS_Q if quick else TARGETS_T
    maxe = 3
    # 1. the ideal design satisfies NoEscape for every archive of the bounded alphabet
    ideal = F.x_run(ctx, names, TARGETS, maxe, dev=(), emit=True, tag="MCX")
    if ideal.violated:
        raise vf.Infra("ideal FileAccess spec (part X) violates %s (specification error)" % ideal.violated)
    # 2. sensitivity: the pinned tree's lexical-only checks must be caught by TLC
    dv = F.x_run(ctx, NAMES_S, TARGETS_Q[:2], 3, dev=("DevLexicalOnly",), emit=False, expect_violation=True,
                 kinds=("file", "sym"), tag="MCXdev")
    if dv.violated != "NoEscape":
        raise vf.Infra("DevLexicalOnly not detected by NoEscape (vacuous model): %s" % dv.violated)
    edges = list(ideal.edges)
    sim_edges = 0
    if not quick:
        # longer archives: 4 entries exhaustively over the quick alphabet, 6 entries by simulation
        e4 = F.x_run(ctx, NAMES_Q[1:], TARGETS_Q, 4, dev=(), emit=True, tag="MCX4")
        if e4.violated:
            raise vf.Infra("ideal FileAccess spec (part X, 4 entries) violates %s" % e4.violated)
        edges += e4.edges
        sim = F.x_run(ctx, NAMES_T, TARGETS, 6, dev=(), emit=True, simulate="num=3000", depth=8, tag="MCXsim")
        if sim.violated:
            raise vf.Infra("ideal FileAccess spec (part X, simulation) violates %s" % sim.violated)
        sim_edges = len(sim.edges)
        edges += sim.edges
        ideal.distinct += e4.distinct
    cases = F.x_cases(edges)
    # 3. replay every enumerated archive on the real UntarDirectory
    summ, mism, escapes = F.x_replay(ctx, cases)
    devmap = None
    if escapes:
        # what does the deviation predict for exactly the archives that escaped on the real code?
        dr = F.x_run(ctx, NAMES_T, TARGETS, 6, dev=("DevLexicalOnly",), emit=True, invs=False, tag="MCXrel",
                     only=[e["arch"] for e in escapes][:400])
        devmap = {F.arch_key(e["arch"]): e for e in dr.edges}
    for esc in escapes:
        dev = classify(esc, devmap)
        kinds = "+".join(sorted(set(e["kind"] for e in esc["arch"])))
        key = "FileAccess:%s:%s" % (dev or "unexplained:" + kinds, F.SITE_X)
        ctx.finding(key, "UntarDirectory changed %s outside the destination while extracting [%s]" % (
            esc["outside_changes"], esc["archs"]), esc)
    benign = [m for m in mism if not m.get("escape")]
    if benign and not ctx.violations and not ctx.known_hits:
        m = benign[0]
        raise vf.Infra("binding mismatch without a property violation: extraction of [%s] gives %s/%s, spec says %s "
                       "(%d such cases) - FileAccess.tla no longer describes tar.go" % (
                           m["archs"], m["real_st"], m["diff"], m["want_st"], len(benign)))
    # 4. binding self-test: a corrupted expectation must be noticed by the comparison
    probe = [c for c in cases if c["st"] == "open" and len(c["arch"]) >= 1][:40]
    s2, m2, _ = F.x_replay(ctx, probe, corrupt=probe[-1]["id"], name="untar_probe.json")
    if not any(m["id"] == probe[-1]["id"] for m in m2):
        raise vf.Infra("binding self-test failed: corrupted expected tree was not detected")
    ctx.evidence("model_checking",
                 assumptions=["file system semantics of FsCore.tla (Linux path resolution, os.MkdirAll/OpenFile/Remove/"
                              "Symlink/Link as issued by the Go runtime) - validated by comparing the complete real "
                              "tree with the predicted tree for every enumerated archive",
                              "bounded alphabet: names %s, link targets %s, kinds dir/file/symlink/hardlink, "
                              "<= %d entries%s; file modes and special entry types (devices, fifos) not modelled" % (
                                  ["/".join(n) for n in names], ["/".join(t) for t in TARGETS], maxe,
                                  "" if quick else " (+ 4 entries over the quick alphabet, 6 entries by simulation)"),
                              "single extraction into an empty or missing destination; no concurrent modification"],
                 states=ideal.distinct, transitions=len(cases),
                 traces_validated_against_impl=summ["cases"], exhaustive=True,
                 replay_mismatches=summ["mismatches"], real_escapes=summ["escapes"],
                 real_extract_errors=summ["extract_errors"], real_extract_ok=summ["extract_ok"],
                 simulated_edges=sim_edges, deviations_caught={"DevLexicalOnly": dv.violated},
                 samples=[{"archive": c["arch"], "predicted": c["st"]} for c in cases[len(cases) // 2:len(cases) // 2 + 3]]
                 + [summ.get("sample")])
