# C11 - Route flooding terminates and never loops
#
# Interpretation (DESIGN.md C11, permissive): "processes a given announcement at most once and forwards it at most
# once to each neighbour" is evaluated while the agent's seen-cache entry for <origin, sequence> is live (an
# announcement that is delivered again after the entry expired may be processed again; that is bounded by the
# seen-by list and not reported).  "Bounded by the number of links" = at most one frame per direction of every
# link per announcement, evaluated on runs without expiry.  The clauses "no stored path revisits an agent or passes
# through the storing agent" and termination (every forwarding chain is a simple path) are checked always, also
# across expiry, duplicate deliveries, peer connects with table replay and disconnects.  Announcements of an
# origin that were split because the route set does not fit one frame count as separate announcements.
import vf, _flood as F

DEVS = ["DevNoSeenMark", "DevForwardLooped"]


def cfgs(ctx):
    l2, l3 = F.L(("a", "b")), F.L(("a", "b"), ("b", "c"))
    t3 = F.L(("a", "b"), ("b", "c"), ("a", "c"))
    loop4 = F.L(("a", "b"), ("a", "d"), ("b", "c"), ("a", "c"))
    out = [
        # every connected topology with <= 3 agents; any delivery order, one duplicate, one expiry
        F.base("c11-stable3", F.A3, t3, initups=[l2, l3, t3], exits=[["a"]], announcers=["a", "b"], exp=1, dup=1),
        # peers that connect while an announcement is in flight: the replayed copy must not loop through the origin
        F.base("c11-join4", F.A4, loop4, initups=[F.L(("a", "b"), ("a", "d"))], exits=[[]], routeids=[],
               announcers=["a"], conn=2),
    ]
    if not ctx.quick():
        k4 = [("a", "b"), ("a", "c"), ("a", "d"), ("b", "c"), ("b", "d"), ("c", "d")]
        tops4 = [F.L(("a", "b"), ("b", "c"), ("c", "d")), F.L(("a", "b"), ("a", "c"), ("a", "d")),
                 F.L(("a", "b"), ("b", "c"), ("c", "d"), ("a", "d")), F.L(("a", "b"), ("b", "c"), ("a", "c"), ("c", "d")),
                 F.L(("a", "b"), ("b", "c"), ("c", "d"), ("a", "d"), ("a", "c")), F.L(*k4)]
        out.append(F.base("c11-stable4", F.A4, F.L(*k4), initups=tops4, exits=[[]], routeids=[], announcers=["a"], exp=1, dup=1, replay=False))
        out.append(F.base("c11-stable4r", F.A4, F.L(*k4), initups=tops4, exits=[[]], routeids=[], announcers=["a"], exp=1))
        out.append(F.base("c11-dyn3", F.A3, t3, initups=[l2], exits=[["a"]], announcers=["a"], conn=2, disc=1, exp=1, replay=False))
        out.append(F.base("c11-dyn3r", F.A3, t3, initups=[l3], exits=[["a"]], announcers=["a"], conn=1, disc=1))
    return out


def run(ctx):
    runs = F.model(ctx, cfgs(ctx))
    caught = F.sensitivity(ctx, DEVS)
    sim = None
    if not ctx.quick():
        ring5 = [sorted(p) for p in (("a", "b"), ("b", "c"), ("c", "d"), ("d", "e"), ("a", "e"), ("a", "c"))]
        sim = F.simulate(ctx, F.base("c11-ring5", ["a", "b", "c", "d", "e"], ring5, initups=[ring5[:5], ring5[:4]], exits=[["a"]],
                                     announcers=["a", "c"], maxann=2, conn=2, disc=1, exp=3, dup=3, age=1), num=800, depth=80)
    rep = F.replay(ctx, runs)
    ntr, nops = (25, 50) if ctx.quick() else (1200, 100)
    tr = F.traces(ctx, "TestZZVFloodTrace", {"ZZV_TRACES": ntr, "ZZV_OPS": nops}, "c11trace")
    F.report(ctx, "C11", rep, [tr])
    st, trn = F.coverage(runs)
    ctx.evidence("model_checking",
                 assumptions=["bounded model: all connected topologies with <= %d agents, one announcement per announcing agent, "
                              "one duplicate delivery and one seen-cache expiry per behaviour, up to two peer connects" % (3 if ctx.quick() else 4),
                              "links are modelled as bags (any delivery order, more general than the FIFO transports)",
                              "'at most once' is evaluated while the seen-cache entry is live (see the head of checks/C11.py)"],
                 states=st, transitions=trn, traces_validated_against_impl=rep["paths"] + tr["summary"]["traces"],
                 exhaustive=True, replayed_paths=rep["paths"], replayed_steps=rep["steps"], replay_edges=rep["edges"],
                 replay_forks=rep["forks"], replay_mismatches=len(rep["mismatches"]),
                 trace_events=tr["summary"]["events"], trace_highwater=tr["v"]["hw"], trace_accepted=tr["v"]["accepted"],
                 simulated_states=(sim.generated if sim else 0), simulated_traces=(sim.traces if sim else 0),
                 deviations_caught=caught, samples=rep["samples"] + [{"random_schedule": s} for s in tr["summary"]["sample"][:2]])
